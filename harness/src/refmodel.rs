//! Independent executable model of RFC 6330 (written from the RFC text, not from the crate).
//! Only the data tables come from `golden.rs`.
#![allow(non_snake_case, clippy::needless_range_loop)]
use crate::golden::{DEG_F, TABLE2, V0, V1, V2, V3};

// ---------- GF(256), RFC 6330 5.7: polynomial x^8+x^4+x^3+x^2+1, alpha = 2 ----------
pub fn gf_mul_slow(a: u8, b: u8) -> u8 {
    let mut a = a as u16;
    let mut b = b;
    let mut r: u16 = 0;
    while b != 0 {
        if b & 1 != 0 {
            r ^= a;
        }
        a <<= 1;
        if a & 0x100 != 0 {
            a ^= 0x11D;
        }
        b >>= 1;
    }
    r as u8
}

pub struct Gf {
    pub mul: Vec<[u8; 256]>,
    pub inv: [u8; 256],
    pub exp: [u8; 256],
}

impl Gf {
    pub fn new() -> Gf {
        // exp/log from the generator alpha = 2 under the polynomial (255 shift-and-xor steps)
        let mut exp = [0u8; 256];
        let mut log = [0usize; 256];
        let mut x = 1u8;
        for i in 0..256 {
            exp[i] = x;
            if i < 255 {
                log[x as usize] = i;
            }
            x = gf_mul_slow(x, 2);
        }
        let mut inv = [0u8; 256];
        for a in 1..256 {
            inv[a] = exp[(255 - log[a]) % 255];
        }
        // the full product table is built by shift-and-xor for every pair (not from exp/log, so
        // the two constructions cross-check each other below); skipped under Miri where 65 536
        // interpreted slow multiplications would dominate the run: `m` then multiplies directly
        let mut mul = vec![];
        if !cfg!(miri) {
            mul = vec![[0u8; 256]; 256];
            for a in 0..256 {
                for b in 0..256 {
                    mul[a][b] = gf_mul_slow(a as u8, b as u8);
                }
            }
            for a in 1..256 {
                assert_eq!(mul[a][inv[a] as usize], 1, "harness: reference field self-check");
                assert_eq!(mul[a][2], exp[(log[a] + 1) % 255], "harness: reference field self-check");
            }
        }
        Gf { mul, inv, exp }
    }
    #[inline]
    pub fn m(&self, a: u8, b: u8) -> u8 {
        if self.mul.is_empty() {
            return gf_mul_slow(a, b);
        }
        self.mul[a as usize][b as usize]
    }
}

impl Default for Gf {
    fn default() -> Self {
        Gf::new()
    }
}

// ---------- 5.3.5.1 Rand ----------
pub fn rand(y: u64, i: u64, m: u64) -> u64 {
    let x0 = ((y + i) % 256) as usize;
    let x1 = ((y / 256 + i) % 256) as usize;
    let x2 = ((y / 65536 + i) % 256) as usize;
    let x3 = ((y / 16777216 + i) % 256) as usize;
    ((V0[x0] ^ V1[x1] ^ V2[x2] ^ V3[x3]) as u64) % m
}

// ---------- 5.3.5.2 Deg ----------
pub fn deg(v: u64, W: u64) -> u64 {
    assert!(v < 1 << 20);
    for d in 1..=30 {
        if (DEG_F[d - 1] as u64) <= v && v < DEG_F[d] as u64 {
            return std::cmp::min(d as u64, W - 2);
        }
    }
    unreachable!()
}

fn is_prime(n: u64) -> bool {
    if n < 2 {
        return false;
    }
    let mut d = 2;
    while d * d <= n {
        if n % d == 0 {
            return false;
        }
        d += 1;
    }
    true
}

#[derive(Clone, Copy, Debug, PartialEq, Eq)]
pub struct Params {
    pub K: usize,
    pub Kp: usize,
    pub J: u64,
    pub S: usize,
    pub H: usize,
    pub W: usize,
    pub L: usize,
    pub P: usize,
    pub P1: usize,
    pub U: usize,
    pub B: usize,
}

pub fn params(K: usize) -> Params {
    assert!(K <= 56403);
    for &(kp, j, s, h, w) in TABLE2.iter() {
        if kp as usize >= K {
            let (Kp, S, H, W) = (kp as usize, s as usize, h as usize, w as usize);
            let L = Kp + S + H;
            let P = L - W;
            let mut P1 = P;
            while !is_prime(P1 as u64) {
                P1 += 1;
            }
            return Params { K, Kp, J: j as u64, S, H, W, L, P, P1, U: P - H, B: W - S };
        }
    }
    unreachable!()
}

// ---------- 5.3.5.4 Tuple ----------
pub fn tuple(p: &Params, X: u64) -> (u64, u64, u64, u64, u64, u64) {
    let mut A = 53591 + p.J * 997;
    if A % 2 == 0 {
        A += 1;
    }
    let B = 10267 * (p.J + 1);
    let y = (B + X * A) % (1u64 << 32);
    let v = rand(y, 0, 1 << 20);
    let d = deg(v, p.W as u64);
    let a = 1 + rand(y, 1, p.W as u64 - 1);
    let b = rand(y, 2, p.W as u64);
    let d1 = if d < 4 { 2 + rand(X, 3, 2) } else { 2 };
    let a1 = 1 + rand(X, 4, p.P1 as u64 - 1);
    let b1 = rand(X, 5, p.P1 as u64);
    (d, a, b, d1, a1, b1)
}

// ---------- 5.3.5.3 Enc: list of intermediate symbol indices that are summed ----------
pub fn enc_indices(p: &Params, X: u64) -> Vec<usize> {
    let (d, a, mut b, d1, a1, mut b1) = tuple(p, X);
    let (W, P, P1) = (p.W as u64, p.P as u64, p.P1 as u64);
    let mut out = vec![b as usize];
    for _ in 1..d {
        b = (b + a) % W;
        out.push(b as usize);
    }
    while b1 >= P {
        b1 = (b1 + a1) % P1;
    }
    out.push((W + b1) as usize);
    for _ in 1..d1 {
        b1 = (b1 + a1) % P1;
        while b1 >= P {
            b1 = (b1 + a1) % P1;
        }
        out.push((W + b1) as usize);
    }
    out
}

/// indices with odd multiplicity (what actually matters over GF(2))
pub fn enc_indices_mod2(p: &Params, X: u64) -> Vec<usize> {
    let mut v = enc_indices(p, X);
    v.sort_unstable();
    let mut out = vec![];
    let mut i = 0;
    while i < v.len() {
        let mut j = i;
        while j < v.len() && v[j] == v[i] {
            j += 1;
        }
        if (j - i) % 2 == 1 {
            out.push(v[i]);
        }
        i = j;
    }
    out
}

// ---------- 5.3.3.3 pre-code relations ----------
/// LDPC row i (0..S) as the list of columns (0..L) holding a one (mod 2 multiplicities resolved).
pub fn ldpc_rows(p: &Params) -> Vec<Vec<usize>> {
    let (S, B, W, P) = (p.S, p.B, p.W, p.P);
    let mut cnt: Vec<std::collections::BTreeMap<usize, u32>> = vec![Default::default(); S];
    for i in 0..B {
        let a = 1 + i / S;
        let mut b = i % S;
        *cnt[b].entry(i).or_default() += 1;
        b = (b + a) % S;
        *cnt[b].entry(i).or_default() += 1;
        b = (b + a) % S;
        *cnt[b].entry(i).or_default() += 1;
    }
    for i in 0..S {
        *cnt[i].entry(B + i).or_default() += 1; // I_S
        let a = i % P;
        let b = (i + 1) % P;
        *cnt[i].entry(W + a).or_default() += 1;
        *cnt[i].entry(W + b).or_default() += 1;
    }
    cnt.into_iter()
        .map(|m| m.into_iter().filter(|(_, c)| c % 2 == 1).map(|(k, _)| k).collect())
        .collect()
}

/// HDPC rows: H x L bytes = [MT * GAMMA | I_H]  (definition via Horner on GAMMA's structure:
/// GAMMA[i][j] = alpha^(i-j) for i >= j, so (MT*GAMMA)[r][j] = sum_{k>=j} MT[r][k] alpha^(k-j)).
pub fn hdpc_rows(p: &Params, gf: &Gf) -> Vec<Vec<u8>> {
    let (Kp, S, H, L) = (p.Kp, p.S, p.H, p.L);
    let n = Kp + S;
    // MT: H x (K'+S)
    let mut mt = vec![vec![0u8; n]; H];
    for j in 0..n - 1 {
        let r6 = rand(j as u64 + 1, 6, H as u64) as usize;
        let r7 = rand(j as u64 + 1, 7, H as u64 - 1) as usize;
        let i1 = r6;
        let i2 = (r6 + r7 + 1) % H;
        mt[i1][j] = 1;
        mt[i2][j] = 1; // i2 != i1 because 1 <= r7+1 <= H-1
    }
    for i in 0..H {
        mt[i][n - 1] = gf.exp[i];
    }
    let mut out = vec![vec![0u8; L]; H];
    for r in 0..H {
        let mut acc = 0u8;
        for j in (0..n).rev() {
            acc = gf.m(acc, 2) ^ mt[r][j];
            out[r][j] = acc;
        }
        out[r][n + r] = 1;
    }
    out
}

/// naive O(H n^2) version of the same (for cross-checking the Horner form at small sizes)
pub fn hdpc_rows_naive(p: &Params, gf: &Gf) -> Vec<Vec<u8>> {
    let (Kp, S, H, L) = (p.Kp, p.S, p.H, p.L);
    let n = Kp + S;
    let mut mt = vec![vec![0u8; n]; H];
    for j in 0..n - 1 {
        let r6 = rand(j as u64 + 1, 6, H as u64) as usize;
        let r7 = rand(j as u64 + 1, 7, H as u64 - 1) as usize;
        mt[r6][j] = 1;
        mt[(r6 + r7 + 1) % H][j] = 1;
    }
    for i in 0..H {
        mt[i][n - 1] = gf.exp[i];
    }
    let mut out = vec![vec![0u8; L]; H];
    for r in 0..H {
        for j in 0..n {
            let mut acc = 0u8;
            for k in j..n {
                acc ^= gf.m(mt[r][k], gf.exp[(k - j) % 255]);
            }
            out[r][j] = acc;
        }
        out[r][n + r] = 1;
    }
    out
}

// ---------- rank oracle ----------
/// Rank over GF(256) of the constraint matrix made of the S LDPC rows, the H HDPC rows and the
/// LT rows of the given ISIs. Returns (rank of binary rows alone, full rank).
pub fn constraint_rank(p: &Params, gf: &Gf, isis: &[u64]) -> (usize, usize) {
    let L = p.L;
    let words = L.div_ceil(64);
    let mut rows: Vec<Vec<u64>> = Vec::new();
    let mk = |cols: &[usize]| {
        let mut r = vec![0u64; words];
        for &c in cols {
            r[c / 64] ^= 1 << (c % 64);
        }
        r
    };
    for r in ldpc_rows(p) {
        rows.push(mk(&r));
    }
    for &x in isis {
        rows.push(mk(&enc_indices(p, x)));
    }
    // Gauss-Jordan over GF(2): pivot_of_col[c] = index into `basis`
    let mut basis: Vec<Vec<u64>> = Vec::new();
    let mut pivot_col: Vec<usize> = Vec::new();
    let mut piv_of_col: Vec<Option<usize>> = vec![None; L];
    for mut r in rows {
        // reduce by existing basis (basis kept in echelon form w.r.t. lowest set column)
        loop {
            // find lowest set bit
            let mut c = None;
            for (w, &word) in r.iter().enumerate() {
                if word != 0 {
                    c = Some(w * 64 + word.trailing_zeros() as usize);
                    break;
                }
            }
            match c {
                None => break,
                Some(c) => match piv_of_col[c] {
                    Some(bi) => {
                        let b = &basis[bi];
                        for w in 0..words {
                            r[w] ^= b[w];
                        }
                    }
                    None => {
                        piv_of_col[c] = Some(basis.len());
                        pivot_col.push(c);
                        basis.push(r);
                        break;
                    }
                },
            }
        }
    }
    let r2 = basis.len();
    // Reduce the HDPC rows by the binary basis. A basis row has its lowest set column = pivot, so
    // eliminating columns in increasing order never re-introduces an already cleared pivot column.
    let mut hd = hdpc_rows(p, gf);
    for row in hd.iter_mut() {
        for c in 0..L {
            let v = row[c];
            if v == 0 {
                continue;
            }
            if let Some(bi) = piv_of_col[c] {
                let b = &basis[bi];
                for w in 0..words {
                    let mut word = b[w];
                    while word != 0 {
                        let t = word.trailing_zeros() as usize;
                        row[w * 64 + t] ^= v;
                        word &= word - 1;
                    }
                }
                debug_assert_eq!(row[c], 0);
            }
        }
    }
    // now the HDPC residuals live on non-pivot columns only; rank over GF(256) by elimination
    let free: Vec<usize> = (0..L).filter(|&c| piv_of_col[c].is_none()).collect();
    let mut m: Vec<Vec<u8>> = hd.iter().map(|r| free.iter().map(|&c| r[c]).collect()).collect();
    let mut rank = 0;
    let ncols = free.len();
    let nrows = m.len();
    let mut rowi = 0;
    for c in 0..ncols {
        if rowi >= nrows {
            break;
        }
        let mut piv = None;
        for r in rowi..nrows {
            if m[r][c] != 0 {
                piv = Some(r);
                break;
            }
        }
        if let Some(pr) = piv {
            m.swap(rowi, pr);
            let inv = gf.inv[m[rowi][c] as usize];
            for k in 0..ncols {
                m[rowi][k] = gf.m(m[rowi][k], inv);
            }
            for r in 0..nrows {
                if r != rowi && m[r][c] != 0 {
                    let f = m[r][c];
                    for k in 0..ncols {
                        let t = gf.m(m[rowi][k], f);
                        m[r][k] ^= t;
                    }
                }
            }
            rowi += 1;
            rank += 1;
        }
    }
    (r2, r2 + rank)
}

// ---------- reference solve of the intermediate symbols (dense Gauss over GF(256)) ----------
/// rows: (coefficients over L columns, rhs symbol). Returns C (L symbols) if the system has full
/// column rank and is consistent.
pub fn solve_dense(gf: &Gf, mut a: Vec<Vec<u8>>, mut d: Vec<Vec<u8>>, L: usize) -> Option<Vec<Vec<u8>>> {
    let m = a.len();
    let t = d[0].len();
    let mut row = 0;
    for c in 0..L {
        let mut piv = None;
        for r in row..m {
            if a[r][c] != 0 {
                piv = Some(r);
                break;
            }
        }
        let pr = piv?;
        a.swap(row, pr);
        d.swap(row, pr);
        let inv = gf.inv[a[row][c] as usize];
        if inv != 1 {
            for k in c..L {
                a[row][k] = gf.m(a[row][k], inv);
            }
            for k in 0..t {
                d[row][k] = gf.m(d[row][k], inv);
            }
        }
        for r in 0..m {
            if r != row && a[r][c] != 0 {
                let f = a[r][c];
                let (src_a, src_d) = (a[row].clone(), d[row].clone());
                for k in c..L {
                    a[r][k] ^= gf.m(src_a[k], f);
                }
                for k in 0..t {
                    d[r][k] ^= gf.m(src_d[k], f);
                }
            }
        }
        row += 1;
    }
    // consistency of the remaining rows
    for r in L..m {
        if d[r].iter().any(|&x| x != 0) {
            return None;
        }
    }
    Some(d[..L].to_vec())
}

/// Full constraint system for a block: S LDPC rows (rhs 0), H HDPC rows (rhs 0), then one LT row per
/// (isi, symbol).
pub fn build_system(p: &Params, gf: &Gf, lt: &[(u64, Vec<u8>)], t: usize) -> (Vec<Vec<u8>>, Vec<Vec<u8>>) {
    let L = p.L;
    let mut a = vec![];
    let mut d = vec![];
    for r in ldpc_rows(p) {
        let mut row = vec![0u8; L];
        for c in r {
            row[c] = 1;
        }
        a.push(row);
        d.push(vec![0u8; t]);
    }
    for r in hdpc_rows(p, gf) {
        a.push(r);
        d.push(vec![0u8; t]);
    }
    for (x, sym) in lt {
        let mut row = vec![0u8; L];
        for c in enc_indices(p, *x) {
            row[c] ^= 1;
        }
        a.push(row);
        d.push(sym.clone());
    }
    (a, d)
}

pub fn enc_symbol(p: &Params, c: &[Vec<u8>], X: u64) -> Vec<u8> {
    let t = c[0].len();
    let mut out = vec![0u8; t];
    for i in enc_indices(p, X) {
        for k in 0..t {
            out[k] ^= c[i][k];
        }
    }
    out
}
