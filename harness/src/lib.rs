//! rqv: runtime monitors for the raptorq properties C01..C19 (see /verif/DESIGN.md).
#![allow(clippy::needless_range_loop, clippy::too_many_arguments, clippy::type_complexity)]
pub mod common;
pub mod golden;
pub mod refmodel;
pub mod props;
