use rqv::common::{Args, Ctx, Tier};
use std::collections::BTreeMap;
use std::path::PathBuf;

fn usage() -> ! {
    eprintln!("usage: rqv <property-id> [--tier quick|thorough] [--seed N] [--out evidence.json] [--replay file] [--part name] [key=value ...]");
    std::process::exit(2)
}

fn main() {
    let mut it = std::env::args().skip(1);
    let prop = it.next().unwrap_or_else(|| usage());
    let mut args = Args {
        prop,
        tier: Tier::Quick,
        seed: std::env::var("VERIF_SEED").ok().and_then(|s| s.parse().ok()).unwrap_or(1),
        out: None,
        replay: None,
        root: PathBuf::from(std::env::var("RQV_ROOT").unwrap_or_else(|_| "/verif".into())),
        extra: BTreeMap::new(),
        part: String::new(),
    };
    while let Some(a) = it.next() {
        match a.as_str() {
            "--tier" => {
                args.tier = match it.next().as_deref() {
                    Some("quick") => Tier::Quick,
                    Some("thorough") => Tier::Thorough,
                    _ => usage(),
                }
            }
            "--seed" => args.seed = it.next().and_then(|s| s.parse().ok()).unwrap_or_else(|| usage()),
            "--out" => args.out = Some(PathBuf::from(it.next().unwrap_or_else(|| usage()))),
            "--replay" => args.replay = Some(PathBuf::from(it.next().unwrap_or_else(|| usage()))),
            "--part" => args.part = it.next().unwrap_or_else(|| usage()),
            kv if kv.contains('=') => {
                let (k, v) = kv.split_once('=').unwrap();
                args.extra.insert(k.to_string(), v.to_string());
            }
            _ => usage(),
        }
    }
    rqv::common::quiet_panics();
    if !args.extra.get("monitor").map(|m| m.contains("valgrind")).unwrap_or(false) {
        rqv::common::crashlog::install(&args.prop, &args.part, &args.root, args.seed);
    }
    let ctx = Ctx::new(args);
    // A panic of the harness itself (not of the library under catch_unwind) is inconclusive.
    let r = std::panic::catch_unwind(std::panic::AssertUnwindSafe(|| rqv::props::run(&ctx)));
    match r {
        Ok(Some(code)) => std::process::exit(code),
        Ok(None) => {
            eprintln!("unknown property/sub-command {}", ctx.args.prop);
            std::process::exit(2)
        }
        Err(e) => {
            let msg = e.downcast_ref::<String>().cloned().or_else(|| e.downcast_ref::<&str>().map(|s| s.to_string())).unwrap_or_default();
            println!("INCONCLUSIVE property={} reason=harness panic: {}", ctx.args.prop, msg);
            std::process::exit(2)
        }
    }
}
