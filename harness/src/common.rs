//! Shared harness plumbing: PRNG, JSON writer, verdict/evidence/replay handling, parallel map.
use std::collections::{BTreeMap, HashSet};
use std::fmt::Write as _;
use std::path::PathBuf;
use std::sync::atomic::{AtomicUsize, Ordering};
use std::sync::Mutex;
use std::time::Instant;

// ---------------------------------------------------------------------------------------------
// PRNG (splitmix64 seeding a xoshiro256**); stable across toolchains, no external crate
// ---------------------------------------------------------------------------------------------
#[derive(Clone, Debug)]
pub struct Rng {
    s: [u64; 4],
}

pub fn splitmix(x: &mut u64) -> u64 {
    *x = x.wrapping_add(0x9E3779B97F4A7C15);
    let mut z = *x;
    z = (z ^ (z >> 30)).wrapping_mul(0xBF58476D1CE4E5B9);
    z = (z ^ (z >> 27)).wrapping_mul(0x94D049BB133111EB);
    z ^ (z >> 31)
}

impl Rng {
    pub fn new(seed: u64) -> Rng {
        let mut x = seed;
        Rng {
            s: [
                splitmix(&mut x),
                splitmix(&mut x),
                splitmix(&mut x),
                splitmix(&mut x),
            ],
        }
    }
    /// independent stream derived from (seed, stream ids)
    pub fn derive(seed: u64, a: u64, b: u64) -> Rng {
        let mut x = seed ^ 0xA5A5_5A5A_1234_5678;
        let s0 = splitmix(&mut x);
        let mut y = s0 ^ a.wrapping_mul(0x9E3779B97F4A7C15);
        let s1 = splitmix(&mut y);
        let mut z = s1 ^ b.wrapping_mul(0xD1B54A32D192ED03);
        Rng::new(splitmix(&mut z))
    }
    #[inline]
    pub fn next(&mut self) -> u64 {
        let r = self.s[1].wrapping_mul(5).rotate_left(7).wrapping_mul(9);
        let t = self.s[1] << 17;
        self.s[2] ^= self.s[0];
        self.s[3] ^= self.s[1];
        self.s[1] ^= self.s[2];
        self.s[0] ^= self.s[3];
        self.s[2] ^= t;
        self.s[3] = self.s[3].rotate_left(45);
        r
    }
    /// uniform in 0..n (n > 0), unbiased enough for workload generation (128-bit multiply)
    #[inline]
    pub fn below(&mut self, n: u64) -> u64 {
        debug_assert!(n > 0);
        ((self.next() as u128 * n as u128) >> 64) as u64
    }
    #[inline]
    pub fn range(&mut self, lo: u64, hi: u64) -> u64 {
        lo + self.below(hi - lo + 1)
    }
    #[inline]
    pub fn chance(&mut self, num: u64, den: u64) -> bool {
        self.below(den) < num
    }
    pub fn pick<'a, T>(&mut self, xs: &'a [T]) -> &'a T {
        &xs[self.below(xs.len() as u64) as usize]
    }
    pub fn fill(&mut self, buf: &mut [u8]) {
        for c in buf.chunks_mut(8) {
            let v = self.next().to_le_bytes();
            c.copy_from_slice(&v[..c.len()]);
        }
    }
    pub fn bytes(&mut self, n: usize) -> Vec<u8> {
        let mut v = vec![0u8; n];
        self.fill(&mut v);
        v
    }
    pub fn shuffle<T>(&mut self, xs: &mut [T]) {
        for i in (1..xs.len()).rev() {
            let j = self.below(i as u64 + 1) as usize;
            xs.swap(i, j);
        }
    }
    /// log-uniform in [lo, hi]: uniform choice of the bit length, then uniform within the part
    /// of [lo, hi] that has this bit length (never rejects, so narrow ranges are fine)
    pub fn log_range(&mut self, lo: u64, hi: u64) -> u64 {
        assert!(lo >= 1 && hi >= lo);
        let bl = 64 - lo.leading_zeros() as u64;
        let bh = 64 - hi.leading_zeros() as u64;
        let bits = self.range(bl, bh);
        let band_lo = 1u64 << (bits - 1);
        let band_hi = if bits >= 64 { u64::MAX } else { (1u64 << bits) - 1 };
        let a = lo.max(band_lo);
        let b = hi.min(band_hi);
        if a == 0 && b == u64::MAX {
            return self.next();
        }
        a + self.below(b - a + 1)
    }
}

/// FNV-1a style 64-bit hasher with extra mixing, for distinct-case accounting and digests
#[derive(Clone, Copy)]
pub struct H64(pub u64);
impl H64 {
    pub fn new() -> H64 {
        H64(0xcbf29ce484222325)
    }
    #[inline]
    pub fn u64(&mut self, v: u64) -> &mut Self {
        let mut x = self.0 ^ v;
        x = x.wrapping_mul(0x100000001b3);
        x ^= x >> 29;
        x = x.wrapping_mul(0xBF58476D1CE4E5B9);
        x ^= x >> 32;
        self.0 = x;
        self
    }
    pub fn bytes(&mut self, b: &[u8]) -> &mut Self {
        self.u64(b.len() as u64);
        for c in b.chunks(8) {
            let mut w = [0u8; 8];
            w[..c.len()].copy_from_slice(c);
            self.u64(u64::from_le_bytes(w));
        }
        self
    }
    pub fn get(&self) -> u64 {
        self.0
    }
}
impl Default for H64 {
    fn default() -> Self {
        H64::new()
    }
}

// ---------------------------------------------------------------------------------------------
// Minimal JSON value
// ---------------------------------------------------------------------------------------------
#[derive(Clone, Debug)]
pub enum J {
    Null,
    B(bool),
    I(i128),
    F(f64),
    S(String),
    A(Vec<J>),
    O(Vec<(String, J)>),
}

impl J {
    pub fn s(x: impl Into<String>) -> J {
        J::S(x.into())
    }
    pub fn i(x: impl TryInto<i128>) -> J {
        J::I(x.try_into().ok().expect("int"))
    }
    pub fn obj(kv: Vec<(&str, J)>) -> J {
        J::O(kv.into_iter().map(|(k, v)| (k.to_string(), v)).collect())
    }
    pub fn arr_u64(xs: &[u64]) -> J {
        J::A(xs.iter().map(|&x| J::I(x as i128)).collect())
    }
    pub fn hex(b: &[u8]) -> J {
        let mut s = String::with_capacity(b.len() * 2);
        for x in b {
            let _ = write!(s, "{:02x}", x);
        }
        J::S(s)
    }
    pub fn render(&self) -> String {
        let mut s = String::new();
        self.write(&mut s, 0);
        s
    }
    fn write(&self, out: &mut String, ind: usize) {
        match self {
            J::Null => out.push_str("null"),
            J::B(b) => out.push_str(if *b { "true" } else { "false" }),
            J::I(i) => {
                let _ = write!(out, "{}", i);
            }
            J::F(f) => {
                if f.is_finite() {
                    let _ = write!(out, "{}", f);
                } else {
                    out.push_str("null");
                }
            }
            J::S(s) => {
                out.push('"');
                for c in s.chars() {
                    match c {
                        '"' => out.push_str("\\\""),
                        '\\' => out.push_str("\\\\"),
                        '\n' => out.push_str("\\n"),
                        '\t' => out.push_str("\\t"),
                        '\r' => out.push_str("\\r"),
                        c if (c as u32) < 0x20 => {
                            let _ = write!(out, "\\u{:04x}", c as u32);
                        }
                        c => out.push(c),
                    }
                }
                out.push('"');
            }
            J::A(v) => {
                let simple = v.iter().all(|x| !matches!(x, J::A(_) | J::O(_)));
                out.push('[');
                for (i, x) in v.iter().enumerate() {
                    if i > 0 {
                        out.push(',');
                    }
                    if !simple {
                        out.push('\n');
                        out.push_str(&" ".repeat(ind + 1));
                    }
                    x.write(out, ind + 1);
                }
                if !simple && !v.is_empty() {
                    out.push('\n');
                    out.push_str(&" ".repeat(ind));
                }
                out.push(']');
            }
            J::O(kv) => {
                out.push('{');
                for (i, (k, v)) in kv.iter().enumerate() {
                    if i > 0 {
                        out.push(',');
                    }
                    out.push('\n');
                    out.push_str(&" ".repeat(ind + 1));
                    J::S(k.clone()).write(out, ind + 1);
                    out.push_str(": ");
                    v.write(out, ind + 1);
                }
                if !kv.is_empty() {
                    out.push('\n');
                    out.push_str(&" ".repeat(ind));
                }
                out.push('}');
            }
        }
    }
}

// ---- tiny JSON parser (for replay files written by this harness) ----
pub fn parse_json(s: &str) -> Result<J, String> {
    let b = s.as_bytes();
    let mut p = 0usize;
    let v = pj(b, &mut p)?;
    ws(b, &mut p);
    if p != b.len() {
        return Err(format!("trailing data at {}", p));
    }
    Ok(v)
}
fn ws(b: &[u8], p: &mut usize) {
    while *p < b.len() && (b[*p] as char).is_ascii_whitespace() {
        *p += 1;
    }
}
fn pj(b: &[u8], p: &mut usize) -> Result<J, String> {
    ws(b, p);
    if *p >= b.len() {
        return Err("eof".into());
    }
    match b[*p] {
        b'{' => {
            *p += 1;
            let mut kv = vec![];
            loop {
                ws(b, p);
                if b[*p] == b'}' {
                    *p += 1;
                    break;
                }
                let k = match pj(b, p)? {
                    J::S(s) => s,
                    _ => return Err("key".into()),
                };
                ws(b, p);
                if b[*p] != b':' {
                    return Err("colon".into());
                }
                *p += 1;
                let v = pj(b, p)?;
                kv.push((k, v));
                ws(b, p);
                if b[*p] == b',' {
                    *p += 1;
                }
            }
            Ok(J::O(kv))
        }
        b'[' => {
            *p += 1;
            let mut v = vec![];
            loop {
                ws(b, p);
                if b[*p] == b']' {
                    *p += 1;
                    break;
                }
                v.push(pj(b, p)?);
                ws(b, p);
                if b[*p] == b',' {
                    *p += 1;
                }
            }
            Ok(J::A(v))
        }
        b'"' => {
            *p += 1;
            let mut s = String::new();
            while b[*p] != b'"' {
                if b[*p] == b'\\' {
                    *p += 1;
                    match b[*p] {
                        b'n' => s.push('\n'),
                        b't' => s.push('\t'),
                        b'r' => s.push('\r'),
                        b'u' => {
                            let h = std::str::from_utf8(&b[*p + 1..*p + 5]).map_err(|e| e.to_string())?;
                            s.push(char::from_u32(u32::from_str_radix(h, 16).map_err(|e| e.to_string())?).unwrap_or('?'));
                            *p += 4;
                        }
                        c => s.push(c as char),
                    }
                    *p += 1;
                } else {
                    let start = *p;
                    while b[*p] != b'"' && b[*p] != b'\\' {
                        *p += 1;
                    }
                    s.push_str(std::str::from_utf8(&b[start..*p]).map_err(|e| e.to_string())?);
                }
            }
            *p += 1;
            Ok(J::S(s))
        }
        b't' => {
            *p += 4;
            Ok(J::B(true))
        }
        b'f' => {
            *p += 5;
            Ok(J::B(false))
        }
        b'n' => {
            *p += 4;
            Ok(J::Null)
        }
        _ => {
            let start = *p;
            while *p < b.len() && matches!(b[*p], b'-' | b'+' | b'.' | b'e' | b'E' | b'0'..=b'9') {
                *p += 1;
            }
            let t = std::str::from_utf8(&b[start..*p]).unwrap();
            if let Ok(i) = t.parse::<i128>() {
                Ok(J::I(i))
            } else {
                t.parse::<f64>().map(J::F).map_err(|e| format!("num {t}: {e}"))
            }
        }
    }
}
impl J {
    pub fn get(&self, k: &str) -> Option<&J> {
        match self {
            J::O(kv) => kv.iter().find(|(kk, _)| kk == k).map(|(_, v)| v),
            _ => None,
        }
    }
    pub fn as_u64(&self) -> Option<u64> {
        match self {
            J::I(i) => u64::try_from(*i).ok(),
            _ => None,
        }
    }
    pub fn as_str(&self) -> Option<&str> {
        match self {
            J::S(s) => Some(s),
            _ => None,
        }
    }
    pub fn as_arr(&self) -> Option<&[J]> {
        match self {
            J::A(v) => Some(v),
            _ => None,
        }
    }
    pub fn u(&self, k: &str) -> u64 {
        self.get(k).and_then(|v| v.as_u64()).unwrap_or_else(|| panic!("replay file: missing integer field {k}"))
    }
    pub fn st(&self, k: &str) -> &str {
        self.get(k).and_then(|v| v.as_str()).unwrap_or_else(|| panic!("replay file: missing string field {k}"))
    }
    pub fn us(&self, k: &str) -> Vec<u64> {
        self.get(k)
            .and_then(|v| v.as_arr())
            .unwrap_or_else(|| panic!("replay file: missing array field {k}"))
            .iter()
            .map(|x| x.as_u64().expect("replay file: integer array"))
            .collect()
    }
}
pub fn unhex(s: &str) -> Vec<u8> {
    (0..s.len() / 2).map(|i| u8::from_str_radix(&s[2 * i..2 * i + 2], 16).unwrap()).collect()
}

// ---------------------------------------------------------------------------------------------
// Run context: arguments, verdict, violations, evidence
// ---------------------------------------------------------------------------------------------
#[derive(Clone, Copy, PartialEq, Eq, Debug)]
pub enum Tier {
    Quick,
    Thorough,
}

pub struct Args {
    pub prop: String,
    pub tier: Tier,
    pub seed: u64,
    pub out: Option<PathBuf>,
    pub replay: Option<PathBuf>,
    pub root: PathBuf,
    pub extra: BTreeMap<String, String>,
    pub part: String,
}

impl Args {
    pub fn quick(&self) -> bool {
        self.tier == Tier::Quick
    }
    pub fn pick<T: Copy>(&self, q: T, t: T) -> T {
        if self.quick() {
            q
        } else {
            t
        }
    }
    pub fn ex(&self, k: &str) -> Option<&str> {
        self.extra.get(k).map(|s| s.as_str())
    }
    pub fn ex_u64(&self, k: &str, default: u64) -> u64 {
        self.ex(k).map(|s| s.parse().expect("integer extra")).unwrap_or(default)
    }
}

pub struct Violation {
    pub sig: String,
    pub what: String,
    pub replay: J,
}

pub struct Ctx {
    pub args: Args,
    pub start: Instant,
    violations: Mutex<Vec<Violation>>,
    seen_sigs: Mutex<HashSet<String>>,
    inconclusive: Mutex<Vec<String>>,
    pub evaluations: AtomicUsize,
    distinct: Mutex<HashSet<u64>>,
    samples: Mutex<Vec<J>>,
    extra_cov: Mutex<Vec<(String, J)>>,
    pub max_samples: usize,
}

pub const MAX_REPORTED_VIOLATIONS: usize = 25;

impl Ctx {
    pub fn new(args: Args) -> Ctx {
        Ctx {
            args,
            start: Instant::now(),
            violations: Mutex::new(vec![]),
            seen_sigs: Mutex::new(HashSet::new()),
            inconclusive: Mutex::new(vec![]),
            evaluations: AtomicUsize::new(0),
            distinct: Mutex::new(HashSet::new()),
            samples: Mutex::new(vec![]),
            extra_cov: Mutex::new(vec![]),
            max_samples: 6,
        }
    }
    pub fn seed(&self) -> u64 {
        self.args.seed
    }
    pub fn eval(&self, n: usize) {
        self.evaluations.fetch_add(n, Ordering::Relaxed);
    }
    /// record one distinct non-trivial case (by hash)
    pub fn nontrivial(&self, h: u64) {
        self.distinct.lock().unwrap().insert(h);
    }
    pub fn nontrivial_many(&self, hs: impl IntoIterator<Item = u64>) {
        let mut g = self.distinct.lock().unwrap();
        for h in hs {
            g.insert(h);
        }
    }
    pub fn distinct_count(&self) -> usize {
        self.distinct.lock().unwrap().len()
    }
    pub fn sample(&self, j: impl FnOnce() -> J) {
        let mut g = self.samples.lock().unwrap();
        if g.len() < self.max_samples {
            g.push(j());
        }
    }
    pub fn cov(&self, k: &str, v: J) {
        let mut g = self.extra_cov.lock().unwrap();
        if let Some(e) = g.iter_mut().find(|(kk, _)| kk == k) {
            e.1 = v;
        } else {
            g.push((k.to_string(), v));
        }
    }
    pub fn violation(&self, sig: String, what: String, replay: J) {
        let mut seen = self.seen_sigs.lock().unwrap();
        if !seen.insert(sig.clone()) {
            return;
        }
        self.violations.lock().unwrap().push(Violation { sig, what, replay });
    }
    pub fn n_violations(&self) -> usize {
        self.violations.lock().unwrap().len()
    }
    pub fn inconclusive(&self, why: String) {
        self.inconclusive.lock().unwrap().push(why);
    }
    /// a floor on observed events: below it the run is inconclusive, never "held"
    pub fn floor(&self, name: &str, seen: u64, min: u64) {
        self.cov(name, J::I(seen as i128));
        if seen < min {
            self.inconclusive(format!("observed {name}={seen} < floor {min}"));
        }
    }
    pub fn too_many_violations(&self) -> bool {
        self.n_violations() >= MAX_REPORTED_VIOLATIONS
    }

    /// Prints verdict lines, writes replay files and the evidence file; returns the exit code.
    pub fn finish(&self, rule: &str, assumptions: &[&str], level_extra: Vec<(&str, J)>) -> i32 {
        let id = &self.args.prop;
        let known = load_known(&self.args.root);
        let replay_dir = self.args.root.join("evidence/replay");
        let mut n_viol = 0;
        let mut n_known = 0;
        let viols = self.violations.lock().unwrap();
        for (n, v) in viols.iter().enumerate() {
            if let Some(k) = known.iter().find(|k| k.prop == *id && k.sig == v.sig) {
                println!("KNOWN-FINDING: property={} {}", id, k.what);
                n_known += 1;
                continue;
            }
            n_viol += 1;
            if n_viol > MAX_REPORTED_VIOLATIONS {
                continue;
            }
            let _ = std::fs::create_dir_all(&replay_dir);
            let part = if self.args.part.is_empty() { String::new() } else { format!("-{}", self.args.part) };
            let path = replay_dir.join(format!("{}{}-{}-{}.json", id, part, self.args.seed, n));
            let doc = J::obj(vec![
                ("property_id", J::s(id.clone())),
                ("sig", J::s(v.sig.clone())),
                ("what", J::s(v.what.clone())),
                ("part", J::s(self.args.part.clone())),
                ("case", v.replay.clone()),
            ]);
            let _ = std::fs::write(&path, doc.render());
            println!("VIOLATION property={} replay={}", id, path.display());
            println!("  what: {}", v.what);
            println!("  sig:  {}", v.sig);
        }
        let inc = self.inconclusive.lock().unwrap();
        let code = if n_viol > 0 {
            1
        } else if !inc.is_empty() {
            for why in inc.iter() {
                println!("INCONCLUSIVE property={} reason={}", id, why);
            }
            2
        } else {
            0
        };
        let evals = self.evaluations.load(Ordering::Relaxed);
        let mut cov = vec![
            ("evaluations".to_string(), J::I(evals as i128)),
            ("distinct_nontrivial".to_string(), J::I(self.distinct_count() as i128)),
            ("rule".to_string(), J::s(rule)),
            ("samples".to_string(), J::A(self.samples.lock().unwrap().clone())),
        ];
        for (k, v) in level_extra {
            cov.push((k.to_string(), v));
        }
        for (k, v) in self.extra_cov.lock().unwrap().iter() {
            cov.push((k.clone(), v.clone()));
        }
        cov.push(("known_findings_matched".to_string(), J::I(n_known)));
        cov.push((
            "verdict".to_string(),
            J::s(match code {
                0 => "held on everything explored",
                1 => "violated",
                _ => "inconclusive",
            }),
        ));
        if !inc.is_empty() {
            cov.push(("inconclusive_reasons".to_string(), J::A(inc.iter().map(|s| J::s(s.clone())).collect())));
        }
        let ev = J::obj(vec![
            ("property_id", J::s(id.clone())),
            ("tier", J::s(if self.args.quick() { "quick" } else { "thorough" })),
            ("seed", J::I(self.args.seed as i128)),
            ("level", J::s("exploration")),
            ("coverage", J::O(cov)),
            ("assumptions", J::A(assumptions.iter().map(|s| J::s(*s)).collect())),
            ("wall_s", J::F((self.start.elapsed().as_secs_f64() * 1000.0).round() / 1000.0)),
            ("violations", J::I(n_viol as i128)),
        ]);
        if let Some(out) = &self.args.out {
            if let Some(d) = out.parent() {
                let _ = std::fs::create_dir_all(d);
            }
            std::fs::write(out, ev.render()).expect("write evidence");
        }
        println!(
            "[{}{}] tier={} seed={} evaluations={} distinct_nontrivial={} violations={} known={} verdict={} wall={:.1}s",
            id,
            if self.args.part.is_empty() { String::new() } else { format!("/{}", self.args.part) },
            if self.args.quick() { "quick" } else { "thorough" },
            self.args.seed,
            evals,
            self.distinct_count(),
            n_viol,
            n_known,
            code,
            self.start.elapsed().as_secs_f64()
        );
        code
    }
}

pub struct Known {
    pub prop: String,
    pub sig: String,
    pub what: String,
}

/// KNOWN_FINDINGS.txt: `known: property=<id> sig=<exact signature> :: <what fails>`; `fixed:` lines
/// suppress nothing and are ignored here.
pub fn load_known(root: &std::path::Path) -> Vec<Known> {
    let mut out = vec![];
    if let Ok(s) = std::fs::read_to_string(root.join("KNOWN_FINDINGS.txt")) {
        for line in s.lines() {
            let line = line.trim();
            if let Some(rest) = line.strip_prefix("known:") {
                let rest = rest.trim();
                if let Some(rest) = rest.strip_prefix("property=") {
                    if let Some((prop, rest)) = rest.split_once(' ') {
                        if let Some(rest) = rest.trim().strip_prefix("sig=") {
                            if let Some((sig, what)) = rest.split_once(" :: ") {
                                out.push(Known { prop: prop.to_string(), sig: sig.trim().to_string(), what: what.trim().to_string() });
                            }
                        }
                    }
                }
            }
        }
    }
    out
}

// ---------------------------------------------------------------------------------------------
// Parallel for over case indices (work stealing by atomic counter)
// ---------------------------------------------------------------------------------------------
pub fn threads() -> usize {
    std::env::var("RQV_THREADS").ok().and_then(|s| s.parse().ok()).unwrap_or_else(|| {
        std::thread::available_parallelism().map(|n| n.get()).unwrap_or(4).min(16)
    })
}

pub fn par_for(n: usize, f: impl Fn(usize) + Sync) {
    par_for_threads(threads(), n, f)
}

pub fn par_for_threads(nthreads: usize, n: usize, f: impl Fn(usize) + Sync) {
    let next = AtomicUsize::new(0);
    std::thread::scope(|s| {
        for _ in 0..nthreads.min(n.max(1)) {
            s.spawn(|| loop {
                let i = next.fetch_add(1, Ordering::Relaxed);
                if i >= n {
                    break;
                }
                f(i);
            });
        }
    });
}

thread_local! {
    static LAST_PANIC_LOC: std::cell::RefCell<String> = const { std::cell::RefCell::new(String::new()) };
}

/// Run a library call under catch_unwind; returns Err(panic message + source location) if it panicked.
pub fn guarded<T>(f: impl FnOnce() -> T) -> Result<T, String> {
    match std::panic::catch_unwind(std::panic::AssertUnwindSafe(f)) {
        Ok(v) => Ok(v),
        Err(e) => {
            let msg = if let Some(s) = e.downcast_ref::<&str>() {
                s.to_string()
            } else if let Some(s) = e.downcast_ref::<String>() {
                s.clone()
            } else {
                "non-string panic payload".to_string()
            };
            let loc = LAST_PANIC_LOC.with(|l| l.borrow().clone());
            Err(if loc.is_empty() { msg } else { format!("{} [at {}]", msg.replace('\n', " "), loc) })
        }
    }
}

/// Silence the default panic printer for panics we deliberately catch around library calls
/// (message and location are kept in the violation record). Harness panics outside `guarded`
/// are mapped to exit code 2 by the top level.
pub fn quiet_panics() {
    std::panic::set_hook(Box::new(|info| {
        if let Some(l) = info.location() {
            let s = format!("{}:{}", l.file(), l.line());
            LAST_PANIC_LOC.with(|c| *c.borrow_mut() = s);
        }
        // a panic that cannot unwind (e.g. the standard library's debug check of an unsafe precondition)
        // aborts the process right after this hook: say why, the orchestrator turns it into a verdict
        let text = info.to_string();
        if text.contains("unsafe precondition(s) violated") || std::env::var("RQV_SHOW_PANICS").is_ok() {
            eprintln!("{text}");
        }
    }));
}

pub fn short(s: &str, n: usize) -> String {
    if s.len() <= n {
        s.to_string()
    } else {
        let mut e = n;
        while !s.is_char_boundary(e) {
            e -= 1;
        }
        format!("{}…", &s[..e])
    }
}

// ------------------------------------------------------------------------------------------------
// Crash attribution: a SIGSEGV / SIGBUS / SIGILL raised while a monitor is inside a library call is an
// observation like any other (the library touched memory it must not touch, on an input the monitor
// generated inside the property's domain). Monitors note the case they are about to execute in a
// per-thread slot (plain stores, no allocation); the handler formats a replay file and the VIOLATION
// line with async-signal-safe calls only and ends the process with status 1. Not installed under
// Miri / ASan / TSan / valgrind, which report such accesses themselves. SIGABRT is left alone (an
// allocation failure of the harness would look the same).
// ------------------------------------------------------------------------------------------------
#[cfg(all(unix, not(miri)))]
pub mod crashlog {
    use std::cell::Cell;
    use std::sync::atomic::{AtomicU64, AtomicUsize, Ordering::Relaxed};

    extern "C" {
        fn signal(signum: i32, handler: usize) -> usize;
        fn write(fd: i32, buf: *const u8, n: usize) -> isize;
        fn open(path: *const u8, flags: i32, mode: u32) -> i32;
        fn close(fd: i32) -> i32;
        fn _exit(code: i32) -> !;
    }
    const SLOTS: usize = 1024;
    const W: usize = 10; // kind + 9 numbers
    #[allow(clippy::declare_interior_mutable_const)]
    const Z: AtomicU64 = AtomicU64::new(0);
    static NOTE: [AtomicU64; SLOTS * W] = [Z; SLOTS * W];
    static NEXT: AtomicUsize = AtomicUsize::new(0);
    thread_local! { static TID: Cell<usize> = const { Cell::new(usize::MAX) }; }
    static mut PATH: [u8; 512] = [0; 512];
    static mut PROP: [u8; 8] = [0; 8];
    static mut PART: [u8; 64] = [0; 64];
    static INSTALLED: AtomicUsize = AtomicUsize::new(0);

    /// kinds: 1 = kernel call [isa, op, len, dest_offset, src_offset, scalar, content_kind, data_seed]
    ///        2 = generated case: the numbers a property's replayer needs, named by `set_case_fields`
    pub const KERNEL: u64 = 1;
    pub const CASE: u64 = 2;
    static mut FIELDS: [&str; 8] = [""; 8];
    /// names of the numbers passed with kind CASE (the replay file's "case" object)
    pub fn set_case_fields(names: &[&'static str]) {
        unsafe {
            let f = core::ptr::addr_of_mut!(FIELDS) as *mut &'static str;
            for (i, n) in names.iter().take(8).enumerate() {
                *f.add(i) = n;
            }
        }
    }

    #[inline]
    fn slot() -> usize {
        TID.with(|t| {
            if t.get() == usize::MAX {
                t.set(NEXT.fetch_add(1, Relaxed) % SLOTS);
            }
            t.get()
        })
    }
    /// note what this thread is about to hand to the library
    #[inline]
    pub fn note(kind: u64, v: &[u64]) {
        if INSTALLED.load(Relaxed) == 0 {
            return;
        }
        let s = slot() * W;
        for (i, &x) in v.iter().take(W - 1).enumerate() {
            NOTE[s + 1 + i].store(x, Relaxed);
        }
        NOTE[s].store(kind, Relaxed);
    }
    #[inline]
    pub fn clear() {
        if INSTALLED.load(Relaxed) != 0 {
            NOTE[slot() * W].store(0, Relaxed);
        }
    }

    struct Buf {
        b: [u8; 1200],
        n: usize,
    }
    impl core::fmt::Write for Buf {
        fn write_str(&mut self, s: &str) -> core::fmt::Result {
            for &c in s.as_bytes() {
                if self.n < self.b.len() {
                    self.b[self.n] = c;
                    self.n += 1;
                }
            }
            Ok(())
        }
    }
    unsafe fn cstr(p: *const u8, max: usize) -> &'static str {
        let mut k = 0;
        while k < max && *p.add(k) != 0 {
            k += 1;
        }
        core::str::from_utf8_unchecked(core::slice::from_raw_parts(p, k))
    }

    extern "C" fn on_fault(sig: i32) {
        use core::fmt::Write;
        unsafe {
            let tid = TID.with(|t| t.get());
            let s = if tid == usize::MAX { 0 } else { tid * W };
            let kind = if tid == usize::MAX { 0 } else { NOTE[s].load(Relaxed) };
            let v = |i: usize| NOTE[s + 1 + i].load(Relaxed);
            let prop = cstr(core::ptr::addr_of!(PROP) as *const u8, 8);
            let part = cstr(core::ptr::addr_of!(PART) as *const u8, 64);
            let path = cstr(core::ptr::addr_of!(PATH) as *const u8, 512);
            let signame = match sig {
                11 => "SIGSEGV (invalid memory access)",
                7 => "SIGBUS",
                4 => "SIGILL",
                _ => "a fatal signal",
            };
            let isas = ["public-dispatcher", "avx512", "avx2", "ssse3", "portable"];
            let ops = ["add_assign", "mulassign_scalar", "fused_addassign_mul_scalar", "fused_addassign_mul_scalar_binary"];
            let mut case = Buf { b: [0; 1200], n: 0 };
            let mut what = Buf { b: [0; 1200], n: 0 };
            match kind {
                1 => {
                    let (isa, op) = (isas[(v(0) as usize).min(4)], ops[(v(1) as usize).min(3)]);
                    let _ = write!(case, "{{\"isa\":\"{}\",\"op\":\"{}\",\"len\":{},\"dest_offset\":{},\"src_offset\":{},\"scalar\":{},\"content_kind\":{},\"data_seed\":{}}}", isa, op, v(2), v(3), v(4), v(5), v(6), v(7));
                    let _ = write!(what, "kernel {}/{} len={} dest alignment {} src alignment {} scalar={}", isa, op, v(2), v(3), v(4), v(5));
                }
                2 => {
                    let f = core::ptr::addr_of!(FIELDS) as *const &'static str;
                    let _ = write!(case, "{{");
                    let _ = write!(what, "the generated case");
                    let mut first = true;
                    for i in 0..8 {
                        let name: &str = *f.add(i);
                        if name.is_empty() {
                            break;
                        }
                        let _ = write!(case, "{}\"{}\":{}", if first { "" } else { "," }, name, v(i));
                        let _ = write!(what, " {}={}", name, v(i));
                        first = false;
                    }
                    let _ = write!(case, "}}");
                }
                _ => {
                    let _ = write!(case, "{{\"crash\":\"no case noted by this thread\"}}");
                    let _ = write!(what, "a library call (this thread had not noted its case)");
                }
            }
            let case_s = core::str::from_utf8_unchecked(&case.b[..case.n]);
            let what_s = core::str::from_utf8_unchecked(&what.b[..what.n]);
            let mut j = Buf { b: [0; 1200], n: 0 };
            let _ = write!(j, "{{\"property_id\":\"{}\",\"part\":\"{}\",\"sig\":\"{} crash {}\",\"what\":\"{} while executing {}\",\"case\":{}}}\n", prop, part, prop, what_s, signame, what_s, case_s);
            let fd = open(core::ptr::addr_of!(PATH) as *const u8, 0o1 | 0o100 | 0o1000, 0o644);
            if fd >= 0 {
                write(fd, j.b.as_ptr(), j.n);
                close(fd);
            }
            let mut m = Buf { b: [0; 1200], n: 0 };
            let _ = write!(m, "VIOLATION property={} replay={}\n  what: the process received {} inside the library while executing {} (valid input generated by the monitor; no answer, no panic: memory outside the operands was touched)\n  sig:  {} crash {}\n", prop, path, signame, what_s, prop, what_s);
            write(1, m.b.as_ptr(), m.n);
            _exit(1);
        }
    }

    pub fn install(prop: &str, part: &str, root: &std::path::Path, seed: u64) {
        // sanitizer / interpreter runs report bad accesses themselves
        if std::env::var("ASAN_OPTIONS").is_ok() || std::env::var("TSAN_OPTIONS").is_ok() || std::env::var("RQV_NO_CRASHLOG").is_ok() {
            return;
        }
        let dir = root.join("evidence/replay");
        let _ = std::fs::create_dir_all(&dir);
        let p = dir.join(format!("{}{}-{}-crash.json", prop, if part.is_empty() { String::new() } else { format!("-{part}") }, seed));
        let b = p.to_string_lossy().into_owned().into_bytes();
        unsafe {
            let dst = core::ptr::addr_of_mut!(PATH) as *mut u8;
            for (i, &c) in b.iter().take(510).enumerate() {
                *dst.add(i) = c;
            }
            let dst = core::ptr::addr_of_mut!(PROP) as *mut u8;
            for (i, &c) in prop.as_bytes().iter().take(7).enumerate() {
                *dst.add(i) = c;
            }
            let dst = core::ptr::addr_of_mut!(PART) as *mut u8;
            for (i, &c) in part.as_bytes().iter().take(63).enumerate() {
                *dst.add(i) = c;
            }
            signal(11, on_fault as *const () as usize);
            signal(7, on_fault as *const () as usize);
            signal(4, on_fault as *const () as usize);
        }
        INSTALLED.store(1, Relaxed);
    }
}
#[cfg(not(all(unix, not(miri))))]
pub mod crashlog {
    pub const KERNEL: u64 = 1;
    pub const CASE: u64 = 2;
    pub fn set_case_fields(_names: &[&'static str]) {}
    pub fn note(_kind: u64, _v: &[u64]) {}
    pub fn clear() {}
    pub fn install(_prop: &str, _part: &str, _root: &std::path::Path, _seed: u64) {}
}
