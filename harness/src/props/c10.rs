//! C10 — octet arithmetic is the field GF(256) of RFC 6330 5.7 (finite domain, enumerated completely).
use crate::common::*;
use crate::refmodel::Gf;
use raptorq::verif::{Octet, OCTET_MUL};
#[cfg(feature = "full")]
use raptorq::verif::{OCTET_MUL_HI_BITS, OCTET_MUL_LOW_BITS};

fn viol(ctx: &Ctx, op: &str, a: usize, b: usize, c: usize, got: String, want: u8) {
    ctx.violation(
        format!("C10 {op} a={a} b={b} c={c}"),
        format!("GF(256) {op}: operands a={a:#04x} b={b:#04x} c={c:#04x}: crate gives {got}, field defined by x^8+x^4+x^3+x^2+1 gives {want:#04x}"),
        J::obj(vec![("op", J::s(op)), ("a", J::i(a)), ("b", J::i(b)), ("c", J::i(c))]),
    );
}

pub fn run(ctx: &Ctx) -> i32 {
    let gf = Gf::new();
    // `pairs_only=1` is the reduced enumeration used under Miri (all 65 536 pairs for every operator,
    // no triples), where each get_unchecked table access is bounds-checked by the interpreter
    let pairs_only = ctx.args.ex_u64("pairs_only", 0) == 1;
    let stride = ctx.args.ex_u64("stride", 1) as usize; // Miri shards: a = shard, shard+stride, ...
    let shard = ctx.args.ex_u64("shard", 0) as usize;
    let mut evals = 0usize;
    let mut inv_seen = [false; 256];
    for a in (shard..256).step_by(stride) {
        for b in 0..256usize {
            let (oa, ob) = (Octet::new(a as u8), Octet::new(b as u8));
            let want_mul = gf.m(a as u8, b as u8);
            let r = guarded(|| {
                let by_ref = (&oa * &ob).byte();
                let by_val = (oa.clone() * ob.clone()).byte();
                let add_ref = (&oa + &ob).byte();
                let add_val = (oa.clone() + ob.clone()).byte();
                let sub = (oa.clone() - ob.clone()).byte();
                let mut aa = oa.clone();
                aa += ob.clone();
                let mut ab = oa.clone();
                ab += &ob;
                (by_ref, by_val, add_ref, add_val, sub, aa.byte(), ab.byte(), OCTET_MUL[a][b])
            });
            evals += 8;
            match r {
                Err(m) => viol(ctx, "operator panic", a, b, 0, m, want_mul),
                Ok((m1, m2, a1, a2, s, aa, ab, tab)) => {
                    if m1 != want_mul {
                        viol(ctx, "mul(&a,&b)", a, b, 0, format!("{m1:#04x}"), want_mul);
                    }
                    if m2 != want_mul {
                        viol(ctx, "mul(a,b)", a, b, 0, format!("{m2:#04x}"), want_mul);
                    }
                    if tab != want_mul {
                        viol(ctx, "OCTET_MUL[a][b]", a, b, 0, format!("{tab:#04x}"), want_mul);
                    }
                    let x = (a ^ b) as u8;
                    for (name, v) in [("add(&a,&b)", a1), ("add(a,b)", a2), ("sub(a,b)", s), ("a+=b", aa), ("a+=&b", ab)] {
                        if v != x {
                            viol(ctx, name, a, b, 0, format!("{v:#04x}"), x);
                        }
                    }
                }
            }
            if b != 0 {
                // division: (a / b) * b == a, and equals a * inv(b)
                let want = gf.m(a as u8, gf.inv[b]);
                let r = guarded(|| ((&oa / &ob).byte(), (oa.clone() / ob.clone()).byte()));
                evals += 2;
                match r {
                    Err(m) => viol(ctx, "div panic", a, b, 0, m, want),
                    Ok((q1, q2)) => {
                        if q1 != want || gf.m(q1, b as u8) != a as u8 {
                            viol(ctx, "div(&a,&b)", a, b, 0, format!("{q1:#04x}"), want);
                        }
                        if q2 != want {
                            viol(ctx, "div(a,b)", a, b, 0, format!("{q2:#04x}"), want);
                        }
                        if a != 0 && a == b && q1 == 1 {
                            inv_seen[a] = true;
                        }
                    }
                }
            } else {
                // division by zero must not produce a value
                evals += 1;
                if let Ok(q) = guarded(|| (&oa / &ob).byte()) {
                    viol(ctx, "div by zero returned", a, b, 0, format!("{q:#04x}"), 0);
                }
            }
            #[cfg(feature = "full")]
            {
                // nibble tables used by the vector kernels: both 16-entry halves of each 32-byte row
                let lo = b & 0x0F;
                let hi = b >> 4;
                for half in [0usize, 16] {
                    let l = OCTET_MUL_LOW_BITS[a][lo + half];
                    let h = OCTET_MUL_HI_BITS[a][hi + half];
                    evals += 2;
                    if l != gf.m(a as u8, lo as u8) {
                        viol(ctx, "OCTET_MUL_LOW_BITS[a][b&15 (+16)]", a, lo + half, 0, format!("{l:#04x}"), gf.m(a as u8, lo as u8));
                    }
                    if h != gf.m(a as u8, (hi << 4) as u8) {
                        viol(ctx, "OCTET_MUL_HI_BITS[a][b>>4 (+16)]", a, hi + half, 0, format!("{h:#04x}"), gf.m(a as u8, (hi << 4) as u8));
                    }
                }
            }
            // fused multiply-add for all accumulators (a few under Miri)
            let accs: &[usize] = if pairs_only { &[0, 0x5a, 0xff] } else { &[0, 1, 2, 0x1d, 0x5a, 0x80, 0xa5, 0xfe, 0xff] };
            for &c in accs {
                let mut acc = Octet::new(c as u8);
                let r = guarded(|| {
                    acc.fma(&oa, &ob);
                    acc.byte()
                });
                evals += 1;
                let want = c as u8 ^ want_mul;
                match r {
                    Ok(v) if v == want => {}
                    Ok(v) => viol(ctx, "fma(c; a, b)", a, b, c, format!("{v:#04x}"), want),
                    Err(m) => viol(ctx, "fma panic", a, b, c, m, want),
                }
            }
        }
        // alpha(i) = 2^i for all i in 0..=255 (alpha(255) = 1)
        let want = gf.exp[a % 255];
        evals += 1;
        match guarded(|| Octet::alpha(a).byte()) {
            Ok(v) if v == want => {}
            Ok(v) => viol(ctx, "alpha(a)", a, 0, 0, format!("{v:#04x}"), want),
            Err(m) => viol(ctx, "alpha panic", a, 0, 0, m, want),
        }
        // beyond the table's period: alpha(i) for i >= 256 may refuse (the crate asserts i < 256) but must
        // never return anything other than 2^i
        for i in [256 + a, 510 + a, 766 + a, 1021 + 4 * a, 65536 + 255 * a] {
            evals += 1;
            if let Ok(v) = guarded(|| Octet::alpha(i).byte()) {
                if v != gf.exp[i % 255] {
                    viol(ctx, "alpha(i>=256)", i, 0, 0, format!("{v:#04x}"), gf.exp[i % 255]);
                }
            }
        }
        ctx.nontrivial_many((0..256u64).map(|b| ((a as u64) << 8) | b));
    }
    if !pairs_only {
        // all 256^3 triples through the crate's own operators: associativity, distributivity, fma = add after mul
        let bad = std::sync::atomic::AtomicUsize::new(0);
        par_for(256, |a| {
            let oa = Octet::new(a as u8);
            for b in 0..256usize {
                let ob = Octet::new(b as u8);
                let ab = &oa * &ob;
                for c in 0..256usize {
                    let oc = Octet::new(c as u8);
                    let bc = &ob * &oc;
                    let l = (&ab * &oc).byte();
                    let r = (&oa * &bc).byte();
                    let d1 = (&oa * &(&ob + &oc)).byte();
                    let d2 = (&ab + &(&oa * &oc)).byte();
                    let mut f = oc.clone();
                    f.fma(&oa, &ob);
                    let want3 = gf.m(gf.m(a as u8, b as u8), c as u8);
                    if l != r || l != want3 || d1 != d2 || f.byte() != (ab.byte() ^ c as u8) {
                        if bad.fetch_add(1, std::sync::atomic::Ordering::Relaxed) < 10 {
                            viol(ctx, "triple law (assoc / distrib / fma)", a, b, c, format!("(ab)c={l:#04x} a(bc)={r:#04x} a(b+c)={d1:#04x} ab+ac={d2:#04x} fma={:#04x}", f.byte()), want3);
                        }
                    }
                }
            }
        });
        evals += 256 * 256 * 256 * 4;
        ctx.cov("triples_checked", J::i(256u64 * 256 * 256));
        ctx.cov("every_nonzero_element_times_its_quotient_inverse_is_one", J::B(inv_seen[1..].iter().all(|&x| x)));
        if !inv_seen[1..].iter().all(|&x| x) && ctx.n_violations() == 0 {
            ctx.inconclusive("a/a == 1 not observed for every non-zero a".into());
        }
    }
    ctx.eval(evals);
    ctx.sample(|| J::s("a=0x02 b=0x80: mul -> 0x1d (x^8 reduced by 0x11d)"));
    ctx.sample(|| J::s("a=0xff b=0xff: div -> 0x01, fma(0x5a; a, b) = 0x5a ^ mul(a,b)"));
    ctx.floor("operand_pairs_enumerated", ctx.distinct_count() as u64, if stride > 1 { 256 } else { 65536 });
    ctx.finish(
        "complete enumeration: all 256x256 operand pairs for mul (by value, by reference, OCTET_MUL), div, add, sub, +=, fma (9 accumulators), both halves of the low/high nibble tables, alpha(i) for i in 0..=255 (and 1280 exponents beyond: refusing is accepted, a value other than 2^i is not), and all 256^3 triples for associativity, distributivity and fma = add-after-mul through the crate's own operators; oracle = field built from x^8+x^4+x^3+x^2+1 by shift-and-xor. distinct_nontrivial = distinct operand pairs",
        &["the reference field is built from the polynomial 0x11D and generator 2 (RFC 6330 5.7) in the harness"],
        vec![("exhaustive", J::B(stride == 1 && !pairs_only))],
    )
}
