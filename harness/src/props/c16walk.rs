//! C16 walker: dense + sparse binary matrices against a Vec<Vec<{0,1,undefined}>> model under
//! admissible operation sequences (construction, indexed phase with a solver-like grammar,
//! un-indexed phase). Mismatches and library panics surface as panics of `run_sequence`; messages
//! starting with "harness:" denote a generator precondition failure (inconclusive, not a violation).
#![allow(clippy::all)]
use raptorq::verif::Octet;
use raptorq::{BinaryMatrix, DenseBinaryMatrix, SparseBinaryMatrix};
use std::collections::BTreeSet;

pub struct Rng(pub crate::common::Rng);
impl Rng {
    fn below(&mut self, n: usize) -> usize { self.0.below(n as u64) as usize }
    fn range(&mut self, lo: usize, hi: usize) -> usize { lo + self.below(hi - lo + 1) }
    fn chance(&mut self, pct: usize) -> bool { self.below(100) < pct }
}
/// optional cap on matrix width/height surplus (used for the short sequences run under Miri)
pub static WIDTH_CAP: std::sync::atomic::AtomicUsize = std::sync::atomic::AtomicUsize::new(usize::MAX);
const U: u8 = 2; // undefined

struct W { m: Vec<Vec<u8>>, h: usize, w: usize, tail: usize, indexed: bool, col_valid: Vec<bool>, d: DenseBinaryMatrix, s: SparseBinaryMatrix, ops: usize, queries: usize, d4_avoided: usize }

fn oct(v: u8) -> Octet { Octet::new(v) }

impl W {
    fn first_dense(&self) -> usize { self.w - self.tail }
    fn defined(&self, r: usize, a: usize, b: usize) -> bool { self.m[r][a..b].iter().all(|&x| x != U) }
    fn ones(&self, r: usize, a: usize, b: usize) -> Vec<usize> { (a..b).filter(|&c| self.m[r][c] == 1).collect() }

    fn set(&mut self, r: usize, c: usize, v: u8) {
        self.d.set(r, c, oct(v)); self.s.set(r, c, oct(v)); self.m[r][c] = v; self.ops += 1;
    }
    fn swap_rows(&mut self, a: usize, b: usize) { self.d.swap_rows(a, b); self.s.swap_rows(a, b); self.m.swap(a, b); self.ops += 1; }
    fn swap_cols(&mut self, a: usize, b: usize, rng: &mut Rng) {
        assert!(a < self.first_dense() && b < self.first_dense());
        // valid hint: rows before hint have identical (defined or not) values in both columns -> use 0 or the maximal valid one
        let mut hint = 0;
        if rng.chance(50) { while hint < self.h && self.m[hint][a] == self.m[hint][b] && self.m[hint][a] != U { hint += 1; } if hint > 0 { hint = rng.range(0, hint); } }
        self.d.swap_columns(a, b, hint); self.s.swap_columns(a, b, hint);
        for r in 0..self.h { self.m[r].swap(a, b); }
        self.col_valid.swap(a, b); self.ops += 1;
    }
    fn freeze_last(&mut self) {
        let c = self.first_dense() - 1;
        self.d.hint_column_dense_and_frozen(c); self.s.hint_column_dense_and_frozen(c); self.tail += 1; self.ops += 1;
    }
    fn add_rows(&mut self, dest: usize, src: usize, start: usize) {
        self.d.add_assign_rows(dest, src, start); self.s.add_assign_rows(dest, src, start);
        for c in 0..self.w {
            if c < start { self.m[dest][c] = U; continue; }
            let (a, b) = (self.m[dest][c], self.m[src][c]);
            self.m[dest][c] = if a == U || b == U { U } else { a ^ b };
        }
        self.ops += 1;
    }
    fn check_all(&mut self, ctx: &str) {
        assert_eq!(self.d.height(), self.h); assert_eq!(self.s.height(), self.h);
        assert_eq!(self.d.width(), self.w); assert_eq!(self.s.width(), self.w);
        for r in 0..self.h { for c in 0..self.w { if self.m[r][c] != U {
            assert_eq!(self.d.get(r, c), oct(self.m[r][c]), "dense get({r},{c}) {ctx}");
            assert_eq!(self.s.get(r, c), oct(self.m[r][c]), "sparse get({r},{c}) {ctx}");
        } } }
        self.queries += 2 * self.h * self.w;
        self.edge_queries();
    }
    /// queries at the edges of the matrix: first / last row, spans that start at column 0 or end exactly at
    /// the width, single-column spans at both ends (word-boundary arithmetic lives here)
    fn edge_queries(&mut self) {
        let (h, w) = (self.h, self.w);
        if h == 0 || w == 0 { return; }
        let fd = self.first_dense();
        let mut rows = vec![0, h - 1]; rows.dedup();
        for &r in &rows {
            let mut spans = vec![(0, w), (w - 1, w), (0, 1), (w / 2, w), (0, fd.max(1)), (fd.min(w - 1), w)];
            if w > 64 { spans.push((w - 64, w)); spans.push((63, w)); spans.push((64.min(w - 1), w)); }
            for (a, b) in spans {
                if a >= b || b > w || !self.defined(r, a, b) { continue; }
                let want = self.ones(r, a, b);
                assert_eq!(self.d.count_ones(r, a, b), want.len(), "dense count_ones({r},{a},{b}) of {h}x{w}");
                let got: Vec<(usize, Octet)> = self.d.get_row_iter(r, a, b).collect();
                assert_eq!(got.len(), b - a, "dense iter({r},{a},{b}) yields every column");
                for (k, (c, v)) in got.iter().enumerate() { assert_eq!(*c, a + k); assert_eq!(*v, oct(self.m[r][*c]), "dense iter({r},{a},{b}) col {c}"); }
                if self.defined(r, a, w) { assert_eq!(self.d.query_non_zero_columns(r, a), self.ones(r, a, w), "dense nonzero cols (edge) row {r} from {a} of {h}x{w}"); }
                if b <= fd {
                    assert_eq!(self.s.count_ones(r, a, b), want.len(), "sparse count_ones({r},{a},{b}) of {h}x{w}");
                    let got: BTreeSet<usize> = self.s.get_row_iter(r, a, b).filter(|x| x.1 != Octet::zero()).map(|x| x.0).collect();
                    assert_eq!(got, want.iter().copied().collect::<BTreeSet<_>>(), "sparse iter({r},{a},{b})");
                }
                self.queries += 4;
            }
            if self.tail > 0 && self.defined(r, fd, w) {
                let want = super::kern::pack_bits(&self.m[r][fd..]);
                assert_eq!(self.d.get_sub_row_as_octets(r, fd).verif_words().0, &want[..], "dense packed sub row (edge) {r} from {fd}");
                assert_eq!(self.s.get_sub_row_as_octets(r, fd).verif_words().0, &want[..], "sparse packed sub row (edge) {r} from {fd}");
                let mut got = self.s.query_non_zero_columns(r, fd); got.sort_unstable();
                assert_eq!(got, self.ones(r, fd, w), "sparse nonzero cols (edge) row {r}");
                self.queries += 3;
            }
        }
        for &c in &[0usize, w - 1] {
            let got: BTreeSet<u32> = self.d.get_ones_in_column(c, 0, h).into_iter().collect();
            for rr in 0..h { if self.m[rr][c] != U { assert_eq!(got.contains(&(rr as u32)), self.m[rr][c] == 1, "dense ones_in_col({c}) (edge) row {rr}"); } }
            self.queries += 1;
        }
    }
    fn random_queries(&mut self, rng: &mut Rng, n: usize) {
        for _ in 0..n {
            let r = rng.below(self.h);
            match rng.below(6) {
                0 => { let c = rng.below(self.w); if self.m[r][c] != U { assert_eq!(self.d.get(r, c), oct(self.m[r][c])); assert_eq!(self.s.get(r, c), oct(self.m[r][c])); self.queries += 2; } }
                1 | 2 => { // count_ones / row iter on a non-empty span
                    let a = rng.below(self.w); let b = rng.range(a + 1, self.w);
                    if !self.defined(r, a, b) { continue; }
                    let want = self.ones(r, a, b);
                    assert_eq!(self.d.count_ones(r, a, b), want.len(), "dense count_ones({r},{a},{b})");
                    let d4 = false; // known defect D4 on the unfixed tree
                    if d4 { self.d4_avoided += 1; } else {
                        let got: Vec<(usize, Octet)> = self.d.get_row_iter(r, a, b).collect();
                        assert_eq!(got.len(), b - a, "dense iter yields every column");
                        for (k, (c, v)) in got.iter().enumerate() { assert_eq!(*c, a + k); assert_eq!(*v, oct(self.m[r][*c])); }
                    }
                    if b <= self.first_dense() {
                        assert_eq!(self.s.count_ones(r, a, b), want.len(), "sparse count_ones({r},{a},{b})");
                        let got: BTreeSet<usize> = self.s.get_row_iter(r, a, b).filter(|x| x.1 != Octet::zero()).map(|x| x.0).collect();
                        let n_items = self.s.get_row_iter(r, a, b).filter(|x| x.1 != Octet::zero()).count();
                        assert_eq!(n_items, got.len(), "sparse iter has no duplicates");
                        assert_eq!(got, want.iter().copied().collect::<BTreeSet<_>>(), "sparse iter ones");
                    }
                    self.queries += 4;
                }
                3 => { // ones in column
                    let c = rng.below(self.w); let a = rng.below(self.h); let b = rng.range(a + 1, self.h);
                    let got: Vec<u32> = self.d.get_ones_in_column(c, a, b);
                    let gotset: BTreeSet<u32> = got.iter().copied().collect(); assert_eq!(gotset.len(), got.len());
                    for rr in a..b { if self.m[rr][c] != U { assert_eq!(gotset.contains(&(rr as u32)), self.m[rr][c] == 1, "dense ones_in_col({c}) row {rr}"); } }
                    for &x in &got { assert!((x as usize) >= a && (x as usize) < b); }
                    if self.indexed && c < self.first_dense() && self.col_valid[c] {
                        let got: Vec<u32> = self.s.get_ones_in_column(c, a, b);
                        let gotset: BTreeSet<u32> = got.iter().copied().collect(); assert_eq!(gotset.len(), got.len(), "sparse ones_in_col dup");
                        for rr in a..b { if self.m[rr][c] != U { assert_eq!(gotset.contains(&(rr as u32)), self.m[rr][c] == 1, "sparse ones_in_col({c}) row {rr} [{a},{b})"); } }
                        for &x in &got { assert!((x as usize) >= a && (x as usize) < b); }
                    }
                    self.queries += 2;
                }
                4 => { // non-zero columns from the first dense column
                    // the dense implementation admits any start column
                    let sc = rng.below(self.w);
                    if self.defined(r, sc, self.w) {
                        assert_eq!(self.d.query_non_zero_columns(r, sc), self.ones(r, sc, self.w), "dense nonzero cols row {r} from {sc} w {}", self.w);
                        self.queries += 1;
                    }
                    if self.tail == 0 { continue; }
                    let fd = self.first_dense();
                    if !self.defined(r, fd, self.w) { continue; }
                    let want = self.ones(r, fd, self.w);
                    assert_eq!(self.d.query_non_zero_columns(r, fd), want, "dense nonzero cols");
                    let mut got = self.s.query_non_zero_columns(r, fd); got.sort_unstable();
                    assert_eq!(got, want, "sparse nonzero cols row {r} fd {fd} w {}", self.w);
                    self.queries += 2;
                }
                _ => { // packed sub row: documented layout, read through hook verif_words
                    if self.tail == 0 { continue; }
                    let fd = self.first_dense();
                    let dv = self.d.get_sub_row_as_octets(r, fd); let sv = self.s.get_sub_row_as_octets(r, fd);
                    assert_eq!(dv.len(), self.tail); assert_eq!(sv.len(), self.tail);
                    if self.defined(r, fd, self.w) {
                        let want = super::kern::pack_bits(&self.m[r][fd..]);
                        assert_eq!(dv.verif_words().0, &want[..], "dense packed sub row {r} from {fd}");
                        assert_eq!(sv.verif_words().0, &want[..], "sparse packed sub row {r} from {fd}");
                    }
                    // the dense implementation admits any start column
                    let sc = rng.below(self.w);
                    if self.defined(r, sc, self.w) {
                        let dv = self.d.get_sub_row_as_octets(r, sc);
                        assert_eq!(dv.verif_words().0, &super::kern::pack_bits(&self.m[r][sc..])[..], "dense packed sub row {r} from {sc}");
                    }
                    self.queries += 3;
                }
            }
        }
    }
}

pub fn run_sequence(seed: u64) -> (usize, usize, usize, [usize; 6]) {
    let mut rng = Rng(crate::common::Rng::new(seed));
    let w = match rng.below(6) { 0 => [63, 64, 65, 127, 128, 129, 191, 192, 193, 255, 256, 257][rng.below(12)], 1 => rng.range(1, 12), 2 => rng.range(200, 420), _ => rng.range(2, 200) };
    let cap = WIDTH_CAP.load(std::sync::atomic::Ordering::Relaxed);
    let w = w.min(cap);
    let h = w + rng.below(if cap == usize::MAX { 70 } else { 6 });
    let tail_cap = if rng.chance(20) { 260 } else { 70 };
    let tail0 = if rng.chance(30) { 0 } else if rng.chance(25) { [63usize, 64, 65, 127, 128, 129, 192][rng.below(7)].min(w - 1) } else { rng.range(0, std::cmp::min(w - 1, tail_cap)) };
    let mut x = W { m: vec![vec![0u8; w]; h], h, w, tail: tail0, indexed: false, col_valid: vec![true; w], d: DenseBinaryMatrix::new(h, w, tail0), s: SparseBinaryMatrix::new(h, w, tail0), ops: 0, queries: 0, d4_avoided: 0 };
    let mut feat = [0usize; 6]; // freezes, partial adds, resizes, word-boundary crossings of the tail, re-enabled index, dense-only narrowing resizes
    // construction: LDPC/LT-like sparse fill
    let density = rng.range(1, 6);
    for r in 0..h { for _ in 0..density { let c = rng.below(w); let v = if rng.chance(90) { 1 } else { 0 }; x.set(r, c, v); } }
    for _ in 0..rng.below(h * 2 + 1) { let (r, c) = (rng.below(h), rng.below(w)); let v = rng.below(2) as u8; x.set(r, c, v); }
    x.check_all("after construction"); x.random_queries(&mut rng, 30);
    // one to three rounds of (indexed phase, un-indexed phase): the index is rebuilt by every enable, so
    // whatever set / row additions / resizes happened while it was off must be reflected afterwards
    let rounds = 1 + rng.chance(45) as usize + rng.chance(20) as usize;
    for round in 0..rounds {
    let h = x.h; let w = x.w;
    if h == 0 || w == 0 { break; }
    let sparse_ones: usize = (0..h).map(|r| x.ones(r, 0, x.first_dense()).len()).sum();
    if sparse_ones > 0 && x.first_dense() > 0 && rng.chance(if round == 0 { 85 } else { 95 }) {
        x.d.enable_column_access_acceleration(); x.s.enable_column_access_acceleration(); x.indexed = true;
        // (col_valid is deliberately not reset: the crate's own debug tracker keeps a column that a row
        // addition invalidated under the index invalid for good, so such columns are never queried again)
        if round > 0 { feat[4] += 1; x.random_queries(&mut rng, 12); }
        let partial_mode = rng.chance(35);
        let mut i = 0;
        let steps = rng.range(1, w);
        for _ in 0..steps {
            if i >= x.first_dense() { break; }
            // candidate pivot rows: fully defined in V and at least one one there
            let fd = x.first_dense();
            let cands: Vec<usize> = (i..h).filter(|&r| x.defined(r, i, fd) && !x.ones(r, i, fd).is_empty()).collect();
            if cands.is_empty() { break; }
            // prefer low-degree rows like the solver but not always
            let r = if rng.chance(70) { *cands.iter().min_by_key(|&&r| x.ones(r, i, fd).len()).unwrap() } else { cands[rng.below(cands.len())] };
            let rcount = x.ones(r, i, fd).len();
            if rcount - 1 > fd - i - 1 { break; }
            x.swap_rows(i, r);
            let ones = x.ones(i, i, fd);
            let pivot = ones[rng.below(ones.len())];
            if pivot != i { x.swap_cols(i, pivot, &mut rng); }
            // move the other ones to the end of V: they must occupy the last (rcount-1) V columns
            let fdn = x.first_dense();
            let tstart = fdn - (rcount - 1);
            loop {
                let outside: Vec<usize> = x.ones(i, i + 1, tstart);
                if outside.is_empty() { break; }
                let c2 = outside[0];
                let dest = (tstart..fdn).rev().find(|&c| x.m[i][c] != 1).expect("harness: free target");
                x.swap_cols(dest, c2, &mut rng);
            }
            // all other ones now occupy the last (rcount-1) V columns
            let before_words = x.tail.div_ceil(64);
            for _ in 0..(rcount - 1) { x.freeze_last(); feat[0] += 1; }
            if x.tail.div_ceil(64) > before_words { feat[3] += 1; }
            assert_eq!(x.ones(i, 0, x.first_dense()).iter().filter(|&&c| c >= i).count(), 1, "harness: exactly one sparse one at/after i");
            // rows below with a one in the pivot column
            if x.col_valid[i] {
                let rows: Vec<u32> = x.s.get_ones_in_column(i, i + 1, h);
                let drows: Vec<u32> = x.d.get_ones_in_column(i, i + 1, h);
                let want: Vec<usize> = (i + 1..h).filter(|&rr| x.m[rr][i] == 1).collect();
                let undefined_rows: Vec<usize> = (i + 1..h).filter(|&rr| x.m[rr][i] == U).collect();
                let mut got: Vec<usize> = rows.iter().map(|&v| v as usize).filter(|rr| !undefined_rows.contains(rr)).collect(); got.sort_unstable();
                assert_eq!(got, want, "sparse pivot column rows");
                let mut gotd: Vec<usize> = drows.iter().map(|&v| v as usize).filter(|rr| !undefined_rows.contains(rr)).collect(); gotd.sort_unstable();
                assert_eq!(gotd, want, "dense pivot column rows");
                // the source row must have exactly one sparse entry overall for a full add under the index
                let src_sparse_ones = x.ones(i, 0, x.first_dense()).len();
                let src_defined = x.defined(i, 0, x.first_dense());
                for rr in want {
                    let partial = partial_mode && rng.chance(60);
                    if partial { let fdn = x.first_dense(); x.add_rows(rr, i, fdn); feat[1] += 1; }
                    else if src_defined && src_sparse_ones == 1 { x.add_rows(rr, i, 0); x.col_valid[i] = false; }
                }
            }
            x.random_queries(&mut rng, 6);
            i += 1;
            if rng.chance(10) { x.check_all("indexed phase"); }
        }
        // sometimes freeze further columns from the right, down into the pivot columns whose index entries
        // went stale through row additions: freezing must move the ones that are really there
        if rng.chance(30) {
            let k = rng.range(1, x.first_dense().max(1));
            let before_words = x.tail.div_ceil(64);
            for _ in 0..k { if x.first_dense() == 0 { break; } x.freeze_last(); feat[0] += 1; }
            if x.tail.div_ceil(64) > before_words { feat[3] += 1; }
        }
        x.check_all("end of indexed phase");
        x.d.disable_column_access_acceleration(); x.s.disable_column_access_acceleration(); x.indexed = false;
    }
    // un-indexed phase
    let nops = rng.range(5, 120);
    for _ in 0..nops {
        match rng.below(10) {
            0 | 1 => { let (a, b) = (rng.below(x.h), rng.below(x.h)); x.swap_rows(a, b); }
            2 | 3 | 4 => { if x.h < 2 { continue; } let a = rng.below(x.h); let mut b = rng.below(x.h); if a == b { b = (b + 1) % x.h; }
                           let start = if rng.chance(25) { feat[1] += 1; x.first_dense() } else { 0 }; x.add_rows(a, b, start); }
            5 => { let (r, c) = (rng.below(x.h), rng.below(x.w)); let v = rng.below(2) as u8; x.set(r, c, v); }
            6 => { if x.first_dense() >= 2 { let a = rng.below(x.first_dense()); let b = rng.below(x.first_dense()); x.swap_cols(a, b, &mut rng); } }
            // a resize that lowers the height only in the last round: the sparse implementation reserves resize
            // for the time "after column indexing is no longer needed", and its index builder is sized by the
            // height, so the index is only re-enabled after resizes that kept the height
            7 => { if round + 1 < rounds && rng.chance(12) && x.w - x.tail >= 2 {
                       // width-only shrink (all dense columns and possibly some sparse ones dropped, height
                       // kept): the column index is rebuilt by the next enable from what is left
                       let new_w = rng.range(1, x.w - x.tail);
                       if new_w <= x.h {
                           x.d.resize(x.h, new_w); x.s.resize(x.h, new_w);
                           for row in x.m.iter_mut() { row.truncate(new_w); }
                           x.tail = 0; x.w = new_w; x.col_valid.truncate(new_w); x.ops += 1; feat[2] += 1;
                           x.check_all("after width-only resize");
                       }
                   } else if round + 1 == rounds && rng.chance(25) {
                       let new_w = if rng.chance(50) || x.w - x.tail < 1 { x.w } else { rng.range(1, x.w - x.tail) };
                       let lo = new_w; let new_h = rng.range(std::cmp::min(lo, x.h), x.h);
                       x.d.resize(new_h, new_w); x.s.resize(new_h, new_w);
                       x.m.truncate(new_h); for row in x.m.iter_mut() { row.truncate(new_w); }
                       if new_w != x.w { x.tail = 0; }
                       x.h = new_h; x.w = new_w; x.col_valid.truncate(new_w); x.ops += 1; feat[2] += 1;
                       x.check_all("after resize");
                   } }
            _ => { x.random_queries(&mut rng, 5); }
        }
        if x.h == 0 || x.w == 0 { break; }
    }
    }
    x.check_all("end");
    if x.h > 0 && x.w > 0 { x.random_queries(&mut rng, 10); }
    // clone continues identically
    let (d2, s2) = (x.d.clone(), x.s.clone());
    for r in 0..x.h { for c in 0..x.w { assert_eq!(d2.get(r, c), x.d.get(r, c)); assert_eq!(s2.get(r, c), x.s.get(r, c)); } }
    // dense-only epilogue: the dense implementation admits shrinking to ANY smaller size (also inside a
    // 64-bit word); the sparse one does not, so this part runs on the dense matrix and the model alone
    if x.h >= 1 && x.w >= 2 && rng.chance(60) {
        let mut d = d2;
        let mut m = x.m.clone();
        let (mut hh, mut ww) = (x.h, x.w);
        for _ in 0..rng.range(1, 3) {
            if ww < 2 { break; }
            let nw = rng.range(1, ww - 1); let nh = rng.range(1, hh);
            d.resize(nh, nw); m.truncate(nh); for row in m.iter_mut() { row.truncate(nw); }
            hh = nh; ww = nw; feat[5] += 1; x.ops += 1;
            assert_eq!(d.height(), hh); assert_eq!(d.width(), ww);
            for _ in 0..rng.range(3, 25) {
                let r = rng.below(hh);
                match rng.below(7) {
                    0 => { if hh >= 2 { let mut b = rng.below(hh); if b == r { b = (b + 1) % hh; } d.add_assign_rows(r, b, 0);
                           for c in 0..ww { let (p, q) = (m[r][c], m[b][c]); m[r][c] = if p == U || q == U { U } else { p ^ q }; } x.ops += 1; } }
                    1 => { let c = rng.below(ww); let v = rng.below(2) as u8; d.set(r, c, oct(v)); m[r][c] = v; x.ops += 1; }
                    2 => { let b = rng.below(hh); d.swap_rows(r, b); m.swap(r, b); x.ops += 1; }
                    3 => { let sc = rng.below(ww); if m[r][sc..].iter().all(|&v| v != U) {
                           let want: Vec<usize> = (sc..ww).filter(|&c| m[r][c] == 1).collect();
                           assert_eq!(d.query_non_zero_columns(r, sc), want, "dense nonzero cols after narrowing resize to width {ww}, row {r} from {sc}"); x.queries += 1; } }
                    4 => { let a = rng.below(ww); let b = rng.range(a + 1, ww); if m[r][a..b].iter().all(|&v| v != U) {
                           let want = (a..b).filter(|&c| m[r][c] == 1).count();
                           assert_eq!(d.count_ones(r, a, b), want, "dense count_ones after narrowing resize");
                           let got: Vec<(usize, Octet)> = d.get_row_iter(r, a, b).collect();
                           assert_eq!(got.len(), b - a);
                           for (k, (c, v)) in got.iter().enumerate() { assert_eq!(*c, a + k); assert_eq!(*v, oct(m[r][*c])); }
                           x.queries += 2; } }
                    5 => { let sc = rng.below(ww); if m[r][sc..].iter().all(|&v| v != U) {
                           let dv = d.get_sub_row_as_octets(r, sc); assert_eq!(dv.len(), ww - sc);
                           assert_eq!(dv.verif_words().0, &super::kern::pack_bits(&m[r][sc..])[..], "dense packed sub row after narrowing resize"); x.queries += 1; } }
                    _ => { let c = rng.below(ww); let a = rng.below(hh); let b = rng.range(a + 1, hh);
                           let got: BTreeSet<u32> = d.get_ones_in_column(c, a, b).into_iter().collect();
                           for rr in a..b { if m[rr][c] != U { assert_eq!(got.contains(&(rr as u32)), m[rr][c] == 1, "dense ones_in_col after narrowing resize"); } }
                           x.queries += 1; }
                }
            }
            for r in 0..hh { for c in 0..ww { if m[r][c] != U { assert_eq!(d.get(r, c), oct(m[r][c]), "dense get({r},{c}) after narrowing resize"); } } }
        }
    }
    (x.ops, x.queries, x.d4_avoided, feat)
}

