//! C11 — bulk symbol kernels equal element-wise field operations on every code path.
use super::kern::*;
use crate::common::*;
use crate::refmodel::Gf;
use raptorq::verif::Octet;
use raptorq::{BinaryMatrix, DenseBinaryMatrix, SparseBinaryMatrix};
use std::collections::BTreeMap;
use std::sync::Mutex;

pub const MAX_LEN: usize = 320;
/// long buffers (whole symbols of real transfers): a few alignments each
pub const LONG_LENS: [usize; 14] = [511, 512, 513, 1023, 1024, 1025, 1316, 1500, 4095, 4096, 4097, 9000, 65528, 65535];

fn pick_scalar(isa: Option<raptorq::verif::verif_kernels::Isa>, op: Op, x: usize) -> u8 {
    let mut c = (x % 256) as u8;
    while !scalar_ok(isa, op, c) {
        c = c.wrapping_add(97);
    }
    c
}

/// the matrices' own packers must produce the documented layout the binary kernels consume
fn check_matrix_packers(ctx: &Ctx) -> usize {
    let mut n = 0;
    let mut rng = Rng::derive(ctx.seed(), 11, 77);
    for case in 0..ctx.args.pick(400, 4000) {
        // widths up to 420 (several packed words), ones from dense (1/3) to a handful per row, so that
        // whole 64-column words are empty next to non-empty ones
        let width = if case % 3 == 0 { rng.range(65, 420) as usize } else { rng.range(1, 200) as usize };
        let height = width + rng.below(4) as usize;
        let tail = rng.range(1, width as u64) as usize;
        let density = *rng.pick(&[3u64, 3, 12, 60, 200]);
        let mut dense = DenseBinaryMatrix::new(height, width, 0);
        let mut sparse = SparseBinaryMatrix::new(height, width, tail);
        let mut model = vec![vec![0u8; width]; height];
        for r in 0..height {
            for c in 0..width {
                if rng.chance(1, density) {
                    model[r][c] = 1;
                    dense.set(r, c, Octet::one());
                    sparse.set(r, c, Octet::one());
                }
            }
        }
        let row = rng.below(height as u64) as usize;
        let start = rng.below(width as u64) as usize;
        let first_dense = width - tail;
        for (name, start_col, bv) in [("dense", start, guarded(|| dense.get_sub_row_as_octets(row, start))), ("sparse", first_dense, guarded(|| sparse.get_sub_row_as_octets(row, first_dense)))] {
            n += 1;
            let want = pack_bits(&model[row][start_col..]);
            let ok = match &bv {
                Ok(b) => {
                    let (w, l) = b.verif_words();
                    l == width - start_col && w == &want[..]
                }
                Err(_) => false,
            };
            if !ok {
                ctx.violation(
                    format!("C11 packer {name} width={width} start={start_col} case={case}"),
                    format!("{name} get_sub_row_as_octets(row {row}, start_col {start_col}) of a {height}x{width} matrix does not produce the documented packed layout (values right-aligned, padding in the low bits of the first word): {:?}", bv.as_ref().map(|b| b.verif_words().1)),
                    J::obj(vec![("kind", J::s("packer")), ("impl", J::s(name)), ("width", J::i(width)), ("start_col", J::i(start_col))]),
                );
            }
        }
    }
    n
}

pub fn run(ctx: &Ctx) -> i32 {
    let gf = Gf::new();
    if let Some(p) = &ctx.args.replay {
        let j = parse_json(&std::fs::read_to_string(p).expect("replay file")).expect("json");
        let c = j.get("case").unwrap();
        ctx.eval(1);
        if c.get("kind").is_some() {
            check_matrix_packers(ctx);
        } else {
            let len = c.u("len") as usize;
            let mut da = Arena::new(len.max(MAX_LEN));
            let mut sa = Arena::new(len.max(MAX_LEN));
            let mut scratch = Default::default();
            monitored_call(ctx, "C11", &gf, &mut da, &mut sa, parse_isa(c.st("isa")), parse_op(c.st("op")), len, c.u("dest_offset") as usize, c.u("src_offset") as usize, c.u("scalar") as u8, c.u("content_kind"), c.u("data_seed"), &mut scratch);
        }
        ctx.nontrivial(1);
        ctx.nontrivial(2);
        return ctx.finish("replay of one recorded kernel call", &[], vec![]);
    }
    let isas = supported_isas();
    let contents: u64 = ctx.args.pick(2, 6);
    let mut cells = vec![];
    for &isa in &isas {
        for &op in &OPS {
            if has_kernel(isa, op) {
                for len in 0..=MAX_LEN {
                    cells.push((isa, op, len));
                }
                for &len in &LONG_LENS {
                    cells.push((isa, op, len));
                }
            }
        }
    }
    let counts: Mutex<BTreeMap<String, (u64, u64, u64)>> = Mutex::new(BTreeMap::new());
    par_for(cells.len(), |ci| {
        if ctx.too_many_violations() {
            return;
        }
        let (isa, op, len) = cells[ci];
        let mut da = Arena::new(len.max(MAX_LEN));
        let mut sa = Arena::new(len.max(MAX_LEN));
        let mut scratch = Default::default();
        let mut local = Vec::with_capacity(2048);
        let long = len > MAX_LEN;
        let mut calls = 0u64;
        let mut k = ci * 7919;
        let mut one = |doff: usize, soff: usize, c: u8, content: u64, local: &mut Vec<u64>| {
            let seed = splitmix(&mut (ctx.seed() ^ ((ci as u64) << 32) ^ ((doff as u64) << 20) ^ ((soff as u64) << 12) ^ ((c as u64) << 4) ^ content));
            monitored_call(ctx, "C11", &gf, &mut da, &mut sa, isa, op, len, doff, soff, c, content, seed, &mut scratch);
            if len >= 1 {
                let mut h = H64::new();
                h.u64(ci as u64).u64(doff as u64).u64(soff as u64).u64(c as u64);
                local.push(h.get());
            }
        };
        for content in 0..contents {
            // (A) alignment sweep: 64 dest alignments x 8 src alignments and the transpose
            for doff in 0..64usize {
                if long && !(doff < 2 || doff == 31 || doff == 63) {
                    continue;
                }
                let soffs: Vec<usize> = if op == Op::Mul { vec![0] } else if long { vec![0, 1, 33] } else if doff < 8 { (0..64).collect() } else { (0..8).collect() };
                for soff in soffs {
                    k += 1;
                    let c = pick_scalar(isa, op, k);
                    one(doff, soff, c, (content + k as u64) % 6, &mut local);
                    calls += 1;
                }
            }
            // (B) scalar sweep: all 256 scalars (those the entry point admits)
            if op != Op::Add && !long {
                for c in 0..=255u8 {
                    if !scalar_ok(isa, op, c) {
                        continue;
                    }
                    for (doff, soff) in [(0usize, 0usize), (1 + (c as usize % 63), 3 + (len % 5))] {
                        one(doff, soff, c, (content + c as u64) % 6, &mut local);
                        calls += 1;
                    }
                }
            }
        }
        ctx.eval(calls as usize);
        ctx.nontrivial_many(local);
        let mut g = counts.lock().unwrap();
        let e = g.entry(format!("{}/{}", isa_name(isa), op_name(op))).or_insert((0, 0, 0));
        e.0 += calls;
        e.1 += calls * len as u64;
        if len >= 2 * 64 + 1 && len % 64 != 0 {
            e.2 += calls;
        }
        if ci % 400 == 7 {
            ctx.sample(|| case_json(isa, op, len, 5, 3, pick_scalar(isa, op, ci), ci as u64 % 6, 0));
        }
    });
    let n_pack = check_matrix_packers(ctx);
    ctx.eval(n_pack);
    ctx.cov("matrix_packer_rows_cross_checked", J::i(n_pack));
    let g = counts.lock().unwrap();
    let mut per = vec![];
    let mut missing = vec![];
    for &isa in &isas {
        for &op in &OPS {
            if !has_kernel(isa, op) {
                continue;
            }
            let key = format!("{}/{}", isa_name(isa), op_name(op));
            match g.get(&key) {
                Some(&(calls, bytes, long)) if long > 0 => per.push((key, J::obj(vec![("calls", J::i(calls)), ("bytes", J::i(bytes)), ("calls_with_2+_vectors_and_tail", J::i(long))]))),
                _ => missing.push(key),
            }
        }
    }
    ctx.cov("per_isa_and_op", J::O(per));
    ctx.cov("isas_supported_by_host", J::A(isas.iter().map(|&i| J::s(isa_name(i))).collect()));
    ctx.cov("isas_not_executable_on_this_host", J::s("NEON (aarch64/arm only)"));
    if !missing.is_empty() && ctx.n_violations() == 0 {
        ctx.inconclusive(format!("no long call observed for {:?}", missing));
    }
    // every x86 ISA the design relies on must actually be present, otherwise say so
    ctx.floor("isa_paths_exercised", isas.len() as u64, 2);
    ctx.finish(
        "every private kernel (hook H2) on every ISA the host supports and the public dispatchers: lengths 0..=320 (all residues mod 8/16/32/64, up to 5 AVX-512 vectors) and 14 long lengths 511..65535 (4 x 3 alignment pairs) x (64 dest alignments x 8 src alignments and the transpose) with scalars cycling through all admitted values, plus all 256 scalars x every length x 2 alignment pairs; contents random/0x00/0xFF/one-hot/nibble pattern; packed-bit operands dense random / all zero / all one / sparse (about one bit per word) / complementary neighbouring words; result compared byte-for-byte with the element-wise reference field, source unchanged, 64-byte canaries around both operands unchanged; packed bit vectors built by the harness packer in the documented layout and cross-checked against what Dense/SparseBinaryMatrix::get_sub_row_as_octets produce. non-trivial = len>=1; distinct by (isa, op, len, dest alignment, src alignment, scalar)",
        &["reference field built from the polynomial in the harness", "NEON kernels cannot run on this x86-64 host"],
        vec![],
    )
}
