//! C14 — derived transmission parameters are those of RFC 6330 4.3.
#![allow(non_snake_case)]
use crate::common::*;
use crate::golden::TABLE2;
use raptorq::{Decoder, EncoderBuilder, ObjectTransmissionInformation as Oti};
use std::sync::atomic::{AtomicU64, Ordering::Relaxed};

fn ceil(a: u128, b: u128) -> u128 {
    (a + b - 1) / b
}

/// KL(n): largest K' of Table 2 with K' <= WS / (Al * ceil(T / (Al * n))), None if no K' fits
fn kl(ws: u128, al: u128, t: u128, n: u128) -> Option<u128> {
    let q = ws / (al * ceil(t, al * n));
    let mut best = None;
    for &(kp, _, _, _, _) in TABLE2.iter() {
        if (kp as u128) <= q {
            best = Some(kp as u128);
        } else {
            break;
        }
    }
    best
}

/// RFC 6330 4.3 in wide integers. Some((T,Z,N,Al)) iff a valid configuration exists.
pub fn derive(F: u128, pkt: u128, ws: u128) -> Option<(u128, u128, u128, u128)> {
    if F == 0 || F > 942574504275 || pkt == 0 {
        return None;
    }
    // the crate's documented convention for (Al, SS); an input convention, not derived
    let (al, ss) = if pkt >= 64 { (8u128, 8u128) } else { (1, 1) };
    if pkt < al {
        return None;
    }
    let t = pkt - pkt % al;
    let kt = ceil(F, t);
    let nmax = t / (ss * al);
    if nmax == 0 {
        return None;
    }
    let klmax = kl(ws, al, t, nmax)?;
    let z = ceil(kt, klmax);
    if z > 255 {
        return None;
    }
    for n in 1..=nmax {
        if let Some(k) = kl(ws, al, t, n) {
            if ceil(kt, z) <= k {
                return Some((t, z, n, al));
            }
        }
    }
    unreachable!("n = nmax always qualifies")
}

fn got_tuple(c: &Oti) -> (u128, u128, u128, u128) {
    (c.symbol_size() as u128, c.source_blocks() as u128, c.sub_blocks() as u128, c.symbol_alignment() as u128)
}

fn case_json(route: &str, F: u128, pkt: u128, ws: u128) -> J {
    J::obj(vec![("route", J::s(route)), ("F", J::i(F)), ("P", J::i(pkt)), ("WS", J::i(ws))])
}

/// returns Some(Z) when in domain
fn check_one(ctx: &Ctx, route: &str, F: u128, pkt: u128, ws: u128, st: &Stats) -> Option<u128> {
    let want = match derive(F, pkt, ws) {
        None => {
            st.skipped.fetch_add(1, Relaxed);
            return None;
        }
        Some(w) => w,
    };
    st.in_domain.fetch_add(1, Relaxed);
    let r = guarded(|| match route {
        "with_defaults" => Oti::with_defaults(F as u64, pkt as u16),
        "builder" => {
            let mut b = EncoderBuilder::new();
            b.set_max_packet_size(pkt as u16);
            b.set_decoder_memory_requirement(ws as u64);
            b.build(&vec![0x5Au8; F as usize]).get_config()
        }
        _ => Oti::verif_generate_encoding_parameters(F as u64, pkt as u16, ws as u64),
    });
    let sig = format!("C14 {route}(F={F},P={pkt},WS={ws})");
    match r {
        Err(m) => {
            ctx.violation(sig, format!("{route}: F={F} packet size={pkt} memory={ws}: RFC 4.3 gives (T,Z,N,Al)={want:?} but the derivation panicked: {}", short(&m, 100)), case_json(route, F, pkt, ws));
        }
        Ok(c) => {
            let g = got_tuple(&c);
            if g != want || c.transfer_length() as u128 != F {
                ctx.violation(sig, format!("{route}: F={F} packet size={pkt} memory={ws}: derived (T,Z,N,Al)={g:?}, RFC 4.3 gives {want:?}"), case_json(route, F, pkt, ws));
            }
        }
    }
    if want.1 > 1 || want.2 > 1 {
        let mut h = H64::new();
        h.u64(F as u64).u64(pkt as u64).u64(ws as u64);
        ctx.nontrivial(h.get());
    }
    if want.2 > 1 {
        st.n_gt1.fetch_add(1, Relaxed);
    }
    if want.1 > 1 {
        st.z_gt1.fetch_add(1, Relaxed);
    }
    if kl(ws, want.3, want.0, 1).is_none() {
        st.kl1_undefined.fetch_add(1, Relaxed);
    }
    if ws / (want.3 * want.0) >= 1 << 32 {
        st.huge_ws.fetch_add(1, Relaxed);
    }
    Some(want.1)
}

#[derive(Default)]
struct Stats {
    in_domain: AtomicU64,
    skipped: AtomicU64,
    n_gt1: AtomicU64,
    z_gt1: AtomicU64,
    kl1_undefined: AtomicU64,
    huge_ws: AtomicU64,
    mono_pairs: AtomicU64,
    roundtrips: AtomicU64,
}

fn gen_pkt(rng: &mut Rng) -> u128 {
    (match rng.below(6) {
        0 => rng.range(1, 70),
        1 => *rng.pick(&[1u64, 7, 8, 9, 63, 64, 65, 71, 72, 73, 1024, 1280, 1316, 1500, 65528, 65535]),
        2 => 8 * rng.range(8, 200) + rng.below(8),
        3 => rng.log_range(1, 65535),
        _ => rng.range(1, 65535),
    }) as u128
}

fn gen_ws(rng: &mut Rng, pkt: u128) -> u128 {
    let (al, ss) = if pkt >= 64 { (8u128, 8u128) } else { (1, 1) };
    let t = pkt - pkt % al;
    let nmax = (t / (ss * al)).max(1);
    (match rng.below(8) {
        0 | 1 => {
            // around k * Al * ceil(T/(Al n)) for small table K' (the "fewer than ten symbols fit" region)
            let n = rng.range(1, nmax as u64) as u128;
            let x = al * ceil(t, al * n);
            let kp = *rng.pick(&[10u128, 10, 12, 18, 20, 26, 101, 56403]);
            (kp * x + rng.below(5) as u128).saturating_sub(2).max(1)
        }
        2 => {
            // narrowing region: around 2^32 * Al * x and above
            let n = rng.range(1, nmax as u64) as u128;
            let x = al * ceil(t, al * n);
            let base = (1u128 << 32) * x * rng.range(1, 3) as u128;
            (base + rng.below(60000) as u128 * x).saturating_sub(rng.below(3) as u128 * x)
        }
        3 => 10 * 1024 * 1024,
        4 => u64::MAX as u128 - rng.below(1000) as u128,
        _ => rng.log_range(1, u64::MAX) as u128,
    })
    .min(u64::MAX as u128)
}

fn gen_f(rng: &mut Rng, pkt: u128, ws: u128) -> u128 {
    let (al, ss) = if pkt >= 64 { (8u128, 8u128) } else { (1, 1) };
    let t = pkt - pkt % al;
    let fmax = (56403u128 * 255 * t).min(942574504275);
    match rng.below(8) {
        // just below / at / above a power of two, within one symbol of it (integer-width boundaries of the
        // ceilings Kt = ceil(F/T), Z, ceil(Kt/Z))
        6 => {
            let p = 1u128 << rng.range(8, 39);
            let d = rng.below(t.max(2) as u64) as u128;
            (if rng.chance(1, 2) { p.saturating_sub(d) } else { p + d }).clamp(1, fmax)
        }
        // a multiple of T just below / at a power of two symbols
        7 => {
            let p = (1u128 << rng.range(4, 32)) * t;
            (p + rng.below(3) as u128).saturating_sub(1 + rng.below(2) as u128).clamp(1, fmax)
        }
        0 => rng.range(1, 5000) as u128,
        1 => {
            // adjacent to a block-count step: F = z * KL(nmax) * T +- small
            let nmax = (t / (ss * al)).max(1);
            match kl(ws, al, t, nmax) {
                Some(k) => (rng.range(1, 255) as u128 * k * t + rng.below(5) as u128).saturating_sub(2).clamp(1, fmax),
                None => rng.range(1, 100000) as u128,
            }
        }
        2 => fmax - rng.below(3) as u128,
        3 => rng.log_range(1, fmax as u64) as u128,
        _ => rng.range(1, fmax as u64) as u128,
    }
}

fn roundtrip(ctx: &Ctx, F: usize, pkt: u16, ws: u64, seed: u64, st: &Stats) {
    if derive(F as u128, pkt as u128, ws as u128).is_none() {
        return;
    }
    let mut rng = Rng::new(seed);
    let data = rng.bytes(F);
    let r = guarded(|| {
        let mut b = EncoderBuilder::new();
        b.set_max_packet_size(pkt);
        b.set_decoder_memory_requirement(ws);
        let enc = b.build(&data);
        let cfg = enc.get_config();
        // the decoder is built from the serialised parameters, as a receiver would
        let mut dec = Decoder::new(Oti::deserialize(&cfg.serialize()));
        let mut packets = enc.get_encoded_packets(3);
        // drop some source packets so repair symbols take part
        let mut kept = vec![];
        for (i, p) in packets.drain(..).enumerate() {
            if i % 7 != 3 {
                kept.push(p);
            }
        }
        let mut out = None;
        for p in kept {
            if out.is_none() {
                out = dec.decode(p);
            }
        }
        out
    });
    st.roundtrips.fetch_add(1, Relaxed);
    let ok = matches!(&r, Ok(Some(v)) if *v == data);
    // losing 1/7 of the source packets with 3 repair per block can legitimately be undecodable;
    // only wrong bytes or a panic refute the round trip here, `None` is retried without loss
    let bad = match &r {
        Ok(Some(v)) => *v != data,
        Ok(None) => {
            let r2 = guarded(|| {
                let mut b = EncoderBuilder::new();
                b.set_max_packet_size(pkt);
                b.set_decoder_memory_requirement(ws);
                let enc = b.build(&data);
                let mut dec = Decoder::new(enc.get_config());
                let mut out = None;
                for p in enc.get_encoded_packets(0) {
                    out = dec.decode(p);
                }
                out
            });
            !matches!(&r2, Ok(Some(v)) if *v == data)
        }
        Err(_) => true,
    };
    let _ = ok;
    if bad {
        ctx.violation(
            format!("C14 roundtrip(F={F},P={pkt},WS={ws})"),
            format!("encoder and decoder built from the derived parameters do not round-trip a {F}-byte object (packet size {pkt}, memory {ws}): {:?}", r.as_ref().map(|o| o.as_ref().map(|v| v.len()))),
            J::obj(vec![("route", J::s("roundtrip")), ("F", J::i(F)), ("P", J::i(pkt)), ("WS", J::i(ws)), ("data_seed", J::i(seed))]),
        );
    }
}

pub fn run(ctx: &Ctx) -> i32 {
    let st = Stats::default();
    if let Some(p) = &ctx.args.replay {
        let j = parse_json(&std::fs::read_to_string(p).expect("replay file")).expect("json");
        let c = j.get("case").unwrap();
        ctx.eval(1);
        match c.st("route") {
            "roundtrip" => roundtrip(ctx, c.u("F") as usize, c.u("P") as u16, c.u("WS"), c.u("data_seed"), &st),
            "monotone" => {
                mono(ctx, c.u("F") as u128, c.u("P") as u128, c.u("WS") as u128, c.u("WS2") as u128, &st);
            }
            r => {
                check_one(ctx, r, c.u("F") as u128, c.u("P") as u128, c.u("WS") as u128, &st);
            }
        }
        ctx.nontrivial(1);
        ctx.nontrivial(2);
        return ctx.finish("replay of one recorded input", &[], vec![]);
    }
    // directed inputs (the two historical failure regions and the defaults)
    for &(F, P, WS) in &[
        (10_000u128, 1024u128, 5000u128),
        (10_000, 1024, (1u128 << 32) * 1024 + 5),
        (1, 1, 10),
        (1_000_000, 1024, 10 * 1024 * 1024),
        (942574504275, 65535, u64::MAX as u128),
        (56403 * 255 * 1024, 1024, u64::MAX as u128),
    ] {
        ctx.eval(1);
        check_one(ctx, "hook", F, P, WS, &st);
    }
    let total: usize = ctx.args.ex_u64("n", ctx.args.pick(1_000_000, 50_000_000)) as usize;
    let chunk = 20_000;
    par_for(total / chunk, |ci| {
        let mut rng = Rng::derive(ctx.seed(), 14, ci as u64);
        for k in 0..chunk {
            if ctx.too_many_violations() {
                break;
            }
            let pkt = gen_pkt(&mut rng);
            let ws = gen_ws(&mut rng, pkt);
            let F = gen_f(&mut rng, pkt, ws);
            let z1 = check_one(ctx, "hook", F, pkt, ws, &st);
            if k % 4 == 0 {
                check_one(ctx, "with_defaults", F, pkt, 10 * 1024 * 1024, &st);
            }
            if k % 50 == 0 {
                // (the checked build's solver re-verifies itself in O(L^3): objects of at most 300 symbols there)
                let f_small = if cfg!(debug_assertions) { rng.range(1, 300 * (pkt as u64).min(64)) as u128 } else { rng.range(1, 20000) as u128 };
                check_one(ctx, "builder", f_small, pkt, ws, &st);
            }
            // monotonicity: a larger budget never yields more blocks
            if z1.is_some() && k % 2 == 0 {
                let ws2 = match rng.below(3) {
                    0 => ws + rng.below(1 + ws as u64 / 8) as u128,
                    1 => ws.saturating_mul(2),
                    _ => rng.log_range(ws as u64, u64::MAX) as u128,
                }
                .min(u64::MAX as u128);
                mono(ctx, F, pkt, ws, ws2, &st);
            }
            if ci == 0 && k < 3 {
                ctx.sample(|| J::obj(vec![("F", J::i(F)), ("P", J::i(pkt)), ("WS", J::i(ws)), ("rfc_4_3_oracle_T_Z_N_Al", J::s(format!("{:?}", derive(F, pkt, ws))))]));
            }
        }
        ctx.eval(chunk);
    });
    // round trips on real data
    let nrt = ctx.args.pick(150usize, 3000);
    par_for(nrt, |i| {
        let mut rng = Rng::derive(ctx.seed(), 1414, i as u64);
        let pkt = match rng.below(3) {
            0 => rng.range(1, 70),
            1 => 8 * rng.range(8, 170) + rng.below(8),
            _ => rng.range(64, 1500),
        } as u16;
        let F = match rng.below(3) {
            0 => rng.range(1, 3000),
            1 => rng.range(1, 200_000),
            _ => rng.range(1, ctx.args.pick(600_000, 2_000_000)),
        } as usize;
        let t = if pkt >= 64 { pkt as u64 - pkt as u64 % 8 } else { pkt as u64 };
        // budgets small enough to force several blocks / sub-blocks
        let ws = match rng.below(3) {
            0 => t * rng.range(10, 60),
            1 => t * rng.range(10, 3000) / rng.range(1, 8),
            _ => rng.log_range(t * 10, 1 << 40),
        };
        // keep Kt per block modest so the case stays cheap (checked build: its solver is cubic)
        if (F as u64).div_ceil(t) > if cfg!(debug_assertions) { 250 } else { 60_000 } {
            return;
        }
        roundtrip(ctx, F, pkt, ws, rng.next(), &st);
    });
    ctx.eval(st.roundtrips.load(Relaxed) as usize);
    ctx.floor("inputs_in_domain", st.in_domain.load(Relaxed), 10_000);
    ctx.cov("inputs_outside_domain_skipped", J::i(st.skipped.load(Relaxed)));
    ctx.floor("in_domain_with_N_gt_1", st.n_gt1.load(Relaxed), 500);
    ctx.floor("in_domain_with_Z_gt_1", st.z_gt1.load(Relaxed), 500);
    ctx.floor("in_domain_where_KL(1)_is_undefined", st.kl1_undefined.load(Relaxed), 200);
    ctx.floor("in_domain_with_budget_quotient_at_least_2^32", st.huge_ws.load(Relaxed), 200);
    ctx.floor("monotonicity_pairs", st.mono_pairs.load(Relaxed), 1000);
    ctx.floor("round_trips_on_real_data", st.roundtrips.load(Relaxed), if cfg!(debug_assertions) { 10 } else { 50 });
    ctx.finish(
        "inputs (F, packet size, memory budget) through hook verif_generate_encoding_parameters (any F x any budget), public with_defaults (10 MiB) and EncoderBuilder (real data); derived (T,Z,N,Al) must equal RFC 4.3 computed in u128 whenever that derivation yields a valid configuration; Z must not grow with the budget; builder->serialise->decoder round trip on real data with loss. non-trivial = in-domain input whose RFC result has Z>1 or N>1; distinct by (F,P,WS)",
        &["(Al,SS) = (8,8) if packet size >= 64 else (1,1): the crate's documented convention, treated as an input", "inputs for which RFC 4.3 yields no valid configuration (KL(N_max) undefined, Z>255, F>942574504275) are skipped and counted", "Table 2 K' values from the golden copy"],
        vec![],
    )
}

fn mono(ctx: &Ctx, F: u128, pkt: u128, ws: u128, ws2: u128, st: &Stats) {
    if ws2 < ws || derive(F, pkt, ws).is_none() {
        return;
    }
    let r = guarded(|| {
        (
            Oti::verif_generate_encoding_parameters(F as u64, pkt as u16, ws as u64).source_blocks(),
            Oti::verif_generate_encoding_parameters(F as u64, pkt as u16, ws2 as u64).source_blocks(),
        )
    });
    st.mono_pairs.fetch_add(1, Relaxed);
    if let Ok((z1, z2)) = r {
        if z2 > z1 {
            ctx.violation(
                format!("C14 monotone(F={F},P={pkt},WS={ws},WS2={ws2})"),
                format!("F={F} packet size={pkt}: memory budget {ws} gives Z={z1} but the larger budget {ws2} gives more blocks, Z={z2}"),
                J::obj(vec![("route", J::s("monotone")), ("F", J::i(F)), ("P", J::i(pkt)), ("WS", J::i(ws)), ("WS2", J::i(ws2))]),
            );
        }
    }
    if r.is_err() {
        // a panic at the larger budget is reported as a derivation failure of that input
        check_one(ctx, "hook", F, pkt, ws2, st);
    }
}
