//! C08 — decoder outcome is independent of packet order, duplication and batching.
#![allow(non_snake_case)]
use super::c01::{gen_case, packets_for};
use super::c02::decodable;
use super::util::*;
use crate::common::*;
use crate::refmodel::Gf;
use raptorq::{Decoder, Encoder, EncodingPacket, SourceBlockDecoder};
use std::collections::HashSet;
use std::sync::atomic::{AtomicU64, Ordering::Relaxed};

#[derive(Default)]
struct Stats {
    histories: AtomicU64,
    calls: AtomicU64,
    dup_after_completion: AtomicU64,
    clones: AtomicU64,
    batchings: AtomicU64,
    trap: AtomicU64,
    completed_sets: AtomicU64,
    incomplete_sets: AtomicU64,
    oracle_evals: AtomicU64,
    flood_sets: AtomicU64,
    row_floods: AtomicU64,
}

/// what the set of distinct packets received so far determines, per block (monotone)
struct SetOracle<'a> {
    gf: &'a Gf,
    ks: Vec<usize>,
    have: Vec<HashSet<u32>>,
    dec: Vec<bool>,
    evals: u64,
}
impl<'a> SetOracle<'a> {
    fn new(gf: &'a Gf, ks: &[usize]) -> Self {
        SetOracle { gf, ks: ks.to_vec(), have: vec![HashSet::new(); ks.len()], dec: vec![false; ks.len()], evals: 0 }
    }
    fn add(&mut self, z: usize, esi: u32) {
        if self.have[z].insert(esi) && !self.dec[z] && self.have[z].len() >= self.ks[z] {
            self.evals += 1;
            self.dec[z] = decodable(self.gf, self.ks[z], &self.have[z]);
        }
    }
    fn all(&self) -> bool {
        self.dec.iter().all(|&d| d)
    }
}

fn make_history(rng: &mut Rng, base: &[(u8, u32)], ks: &[usize], style: u64) -> Vec<(u8, u32)> {
    let mut h: Vec<(u8, u32)> = base.to_vec();
    match style % 5 {
        0 => {}
        1 => h.reverse(),
        2 => h.sort_unstable(), // blocks sequential, ESIs ascending
        3 => {
            // round-robin interleaving of blocks
            h.sort_unstable_by_key(|&(z, e)| (e, z));
        }
        _ => rng.shuffle(&mut h),
    }
    if style >= 5 {
        rng.shuffle(&mut h);
    }
    // duplicates: each packet repeated 0..3x at random later positions or immediately
    let dup_pct = *rng.pick(&[0u64, 15, 40]);
    let mut out: Vec<(u8, u32)> = Vec::with_capacity(h.len() * 2);
    let mut pending: Vec<(usize, (u8, u32))> = vec![];
    for (i, &p) in h.iter().enumerate() {
        out.push(p);
        if rng.below(100) < dup_pct {
            for _ in 0..rng.range(1, 3) {
                if rng.chance(1, 3) {
                    out.push(p); // immediately
                } else {
                    pending.push((i + rng.range(1, h.len() as u64) as usize, p));
                }
            }
        }
        let mut k = 0;
        while k < pending.len() {
            if pending[k].0 <= i {
                out.push(pending.swap_remove(k).1);
            } else {
                k += 1;
            }
        }
    }
    // continuation after the end: old packets again (re-delivery after completion)
    for _ in 0..rng.range(5, 50) {
        out.push(*rng.pick(&h));
    }
    for (_, p) in pending {
        out.push(p);
    }
    let _ = ks;
    out
}

fn run_set(ctx: &Ctx, gf: &Gf, seed: u64, idx: u64, st: &Stats) {
    let mut rng = Rng::derive(seed, 0x0808, idx);
    let c = gen_case(seed ^ 0x0808_0808, idx, 0, 60, 48);
    let s = c.shape;
    let ks = s.block_ks();
    let replay = || J::obj(vec![("seed", J::i(seed)), ("idx", J::i(idx)), ("shape", s.json()), ("block_K", J::A(ks.iter().map(|&k| J::i(k)).collect())), ("sparse_threshold", J::i(c.threshold))]);
    // the distinct packet set
    let mut base: Vec<(u8, u32)> = c.history.clone();
    base.sort_unstable();
    base.dedup();
    if base.is_empty() {
        return;
    }
    // new packets for continuation after completion
    let mut extra: Vec<(u8, u32)> = vec![];
    for z in 0..s.Z {
        for _ in 0..3 {
            extra.push((z as u8, rng.range(ks[z] as u64, (1 << 24) - 1) as u32));
        }
    }
    let built = guarded(|| {
        let cfg = s.cfg();
        let enc = Encoder::new(&c.data, cfg);
        (cfg, enc)
    });
    let (cfg, enc) = match built {
        Ok(x) => x,
        Err(m) => {
            ctx.violation(format!("C08 encoder-panic idx={idx}"), format!("encoder for {:?} panicked: {}", s, short(&m, 100)), replay());
            return;
        }
    };
    let sig = |what: &str, hi: usize| format!("C08 {what} seed={seed} idx={idx} history={hi}");
    let nh = rng.range(8, ctx.args.pick(14, 30)) as usize;
    let mut finals: Vec<Option<bool>> = vec![];
    for hi in 0..nh {
        let mut hist = make_history(&mut rng, &base, &ks, hi as u64);
        if hi == 0 {
            // the double-count trap: K-1 distinct source symbols of block 0 and one duplicate first
            let k0 = ks[0];
            let mut pre: Vec<(u8, u32)> = (0..k0.saturating_sub(1) as u32).map(|e| (0u8, e)).filter(|p| base.contains(p)).collect();
            if let Some(&d) = pre.first() {
                pre.push(d);
                pre.extend(hist);
                hist = pre;
                st.trap.fetch_add(1, Relaxed);
            }
        }
        if hi % 3 == 1 {
            hist.extend(extra.iter().copied()); // new packets after the old ones
            for _ in 0..10 {
                hist.push(*rng.pick(&base));
            }
        }
        let pk = match guarded(|| packets_for(&enc, &ks, &hist)) {
            Ok(p) => p,
            Err(m) => {
                ctx.violation(sig("packets-panic", hi), format!("producing packets panicked: {}", short(&m, 100)), replay());
                return;
            }
        };
        // three observers of the same history: decode(), add_new_packet()+get_result(), and a clone
        let mut d1 = Decoder::new(cfg);
        d1.verif_set_sparse_threshold(c.threshold);
        let mut d2 = d1.clone();
        let clone_at = rng.below(hist.len() as u64 + 1) as usize;
        let mut d3: Option<Decoder> = None;
        // fourth observer: the two entry points mixed on one decoder (choice per packet)
        let mut d4 = d1.clone();
        let mut mix_rng = Rng::derive(seed, 0x0848, idx * 64 + hi as u64);
        let mut oracle = SetOracle::new(gf, &ks);
        let mut first: Option<Vec<u8>> = None;
        let mut dup_after = 0u64;
        for (i, p) in pk.iter().enumerate() {
            if i == clone_at {
                // every second clone is made with clone_from into a decoder that served another transfer
                // (other sub-block count, symbol size and block count)
                d3 = Some(if hi % 2 == 0 {
                    d1.clone()
                } else {
                    let other = raptorq::ObjectTransmissionInformation::new(((s.Z + 1) * 3 * 8 * (s.N + 1)) as u64, (8 * (s.N + 1)) as u16, (s.Z + 1).min(255) as u8, (s.N + 1) as u16, 8);
                    let mut scratch = Decoder::new(other);
                    scratch.clone_from(&d1);
                    scratch
                });
                st.clones.fetch_add(1, Relaxed);
            }
            let (z, e) = hist[i];
            let was_dup = oracle.have[z as usize].contains(&e);
            oracle.add(z as usize, e);
            let r = guarded(|| {
                let a = d1.decode(p.clone());
                d2.add_new_packet(p.clone());
                let b = d2.get_result();
                let c3 = d3.as_mut().map(|d| d.decode(p.clone()));
                let m = if mix_rng.chance(1, 2) {
                    d4.decode(p.clone())
                } else {
                    d4.add_new_packet(p.clone());
                    d4.get_result()
                };
                (a, b, c3, m)
            });
            st.calls.fetch_add(1, Relaxed);
            let (a, b, c3, m4) = match r {
                Ok(x) => x,
                Err(m) => {
                    ctx.violation(sig("decoder-panic", hi), format!("{:?}: decoder panicked at call {i} (SBN={z},ESI={e}, duplicate={was_dup}) of history {hi}: {}", s, short(&m, 120)), replay());
                    return;
                }
            };
            // (3) interface agreement
            if a != b {
                ctx.violation(sig("interfaces-disagree", hi), format!("{:?}: at call {i} of history {hi} decode() returned {:?} but add_new_packet()+get_result() returned {:?} (lengths)", s, a.as_ref().map(|v| v.len()), b.as_ref().map(|v| v.len())), replay());
                return;
            }
            if m4 != a {
                ctx.violation(sig("mixed-interfaces-disagree", hi), format!("{:?}: at call {i} of history {hi} a decoder fed through decode() only answers {:?} but a decoder fed the same packets through a mix of decode() and add_new_packet()+get_result() answers {:?} (lengths)", s, a.as_ref().map(|v| v.len()), m4.as_ref().map(|v| v.len())), replay());
                return;
            }
            // (4) clone continues exactly like the original
            if let Some(c3) = c3 {
                if c3 != a {
                    ctx.violation(sig("clone-diverged", hi), format!("{:?}: decoder cloned before call {clone_at} diverged from the original at call {i} of history {hi}", s), replay());
                    return;
                }
            }
            // (1) the answer is what the set of distinct packets determines
            let want = oracle.all();
            if a.is_some() != want {
                ctx.violation(
                    sig("set-determinism", hi),
                    format!("{:?}: after call {i} of history {hi} (SBN={z},ESI={e}, duplicate={was_dup}) the decoder answers {} but the set of distinct packets received so far {} the object (per-block decodability {:?}, distinct symbols per block {:?}, K {:?})", s, if a.is_some() { "Some" } else { "None" }, if want { "determines" } else { "does not determine" }, oracle.dec, oracle.have.iter().map(|h| h.len()).collect::<Vec<_>>(), ks),
                    replay(),
                );
                return;
            }
            // (2) stability and correctness of the bytes
            if let Some(v) = a {
                if v != c.data {
                    ctx.violation(sig("wrong-bytes", hi), format!("{:?}: history {hi} call {i}: returned bytes differ from the object at {:?}", s, first_diff(&v, &c.data)), replay());
                    return;
                }
                match &first {
                    None => first = Some(v),
                    Some(f) => {
                        if *f != v {
                            ctx.violation(sig("unstable", hi), format!("{:?}: history {hi}: answer changed after it was first returned (call {i})", s), replay());
                            return;
                        }
                        if was_dup {
                            dup_after += 1;
                        }
                    }
                }
            }
        }
        st.histories.fetch_add(1, Relaxed);
        st.oracle_evals.fetch_add(oracle.evals, Relaxed);
        if dup_after > 0 {
            st.dup_after_completion.fetch_add(1, Relaxed);
            let mut h = H64::new();
            h.u64(idx).u64(hi as u64);
            for &(a, b) in &hist {
                h.u64((a as u64) << 32 | b as u64);
            }
            ctx.nontrivial(h.get());
        }
        // final answers of histories over the same set must agree (only histories without the extra packets)
        if hi % 3 != 1 {
            finals.push(Some(first.is_some()));
        }
    }
    let fs: HashSet<bool> = finals.iter().flatten().copied().collect();
    if fs.len() > 1 {
        ctx.violation(sig("final-answers-differ", 0), format!("{:?}: histories over the same packet set ended with different answers", s), replay());
    }
    if fs.contains(&true) {
        st.completed_sets.fetch_add(1, Relaxed);
    } else {
        st.incomplete_sets.fetch_add(1, Relaxed);
    }
    // block-level batching: any batching of the same packets = packet by packet
    let z = (idx as usize) % s.Z;
    let ids: Vec<(u8, u32)> = base.iter().copied().filter(|p| p.0 as usize == z).collect();
    if !ids.is_empty() {
        let mut order = ids.clone();
        // duplicates inside the batches as well (a batch may end with a re-delivery)
        for _ in 0..rng.below(1 + ids.len() as u64 / 2) {
            order.push(*rng.pick(&ids));
        }
        rng.shuffle(&mut order);
        let r = guarded(|| {
            let pk: Vec<EncodingPacket> = packets_for(&enc, &ks, &order);
            let mk = || {
                let mut d = SourceBlockDecoder::new(z as u8, &cfg, (ks[z] * s.T) as u64);
                d.verif_set_sparse_threshold(c.threshold);
                d
            };
            // packet by packet
            let mut d = mk();
            let mut one: Vec<bool> = vec![];
            let mut last = None;
            // the block decoder keeps being called after it has answered (late packets, duplicates, an empty
            // call): every later return must repeat the first answer
            let mut changed_after: Option<usize> = None;
            for (i, p) in pk.iter().enumerate() {
                let r = d.decode(std::iter::once(p.clone()));
                match (&last, r) {
                    (None, r) => last = r,
                    (Some(f), Some(v)) => {
                        if *f != v && changed_after.is_none() {
                            changed_after = Some(i);
                        }
                    }
                    (Some(_), None) => {
                        if changed_after.is_none() {
                            changed_after = Some(i);
                        }
                    }
                }
                one.push(last.is_some());
            }
            if let Some(f) = &last {
                let r = d.decode(std::iter::empty());
                if r.as_ref() != Some(f) && changed_after.is_none() {
                    changed_after = Some(pk.len());
                }
            }
            // random batches
            let mut d = mk();
            let mut i = 0;
            let mut batched = None;
            let mut cuts = vec![];
            while i < pk.len() {
                let n = rng.range(1, (pk.len() - i) as u64) as usize;
                let r = d.decode(pk[i..i + n].iter().cloned());
                i += n;
                cuts.push((i, r.is_some()));
                if r.is_some() {
                    batched = r;
                    break;
                }
            }
            // one shot
            let all = mk().decode(pk.iter().cloned());
            (one, last, cuts, batched, all, changed_after)
        });
        st.batchings.fetch_add(1, Relaxed);
        match r {
            Err(m) => ctx.violation(sig("batch-panic", 0), format!("{:?}: block-level decode panicked: {}", s, short(&m, 120)), replay()),
            Ok((one, last, cuts, batched, all, changed_after)) => {
                if let Some(i) = changed_after {
                    ctx.violation(sig("block-unstable", 0), format!("{:?}: block {z}: the block decoder had answered, and call {i} afterwards (late packet / duplicate / empty call) returned something else", s), replay());
                }
                let want = block_bytes(&c.data, &s, z);
                for (what, v) in [("packet-by-packet", &last), ("batched", &batched), ("one-shot", &all)] {
                    if let Some(v) = v {
                        if *v != want {
                            ctx.violation(sig("batch-wrong-bytes", 0), format!("{:?}: block {z} decoded {what} differs from the block's bytes", s), replay());
                        }
                    }
                }
                if all.is_some() != *one.last().unwrap_or(&false) {
                    ctx.violation(sig("batch-vs-single", 0), format!("{:?}: block {z}: one-shot decode of {} packets answers {:?} but packet-by-packet delivery of the same packets ends with {:?}", s, order.len(), all.is_some(), one.last()), replay());
                }
                for (upto, some) in cuts {
                    if some != one[upto - 1] {
                        ctx.violation(sig("batch-prefix", 0), format!("{:?}: block {z}: after the first {upto} packets a batched decoder answers {some} but a packet-by-packet decoder answers {}", s, one[upto - 1]), replay());
                        break;
                    }
                }
            }
        }
    }
}

/// Flood sets (from C02's hostile family): more than L repair symbols taken from a few classes of ids
/// with identical LT rows (rank far below L) plus the symbols that complete the rank. The answer must
/// not depend on whether the flood arrives first, last or interleaved, and must follow the rank oracle
/// after every call.
fn run_flood_set(ctx: &Ctx, gf: &Gf, seed: u64, idx: u64, st: &Stats) {
    let fc = super::c02::gen_flood_case(seed ^ 0x0808_f100d, idx);
    let (K, T) = (fc.K, fc.T);
    let mut rng = Rng::derive(seed, 0x0809, idx);
    let data = rng.bytes(K * T);
    let s = Shape { F: K * T, T, Z: 1, N: 1, Al: 1 };
    let replay = || J::obj(vec![("flood", J::i(1)), ("seed", J::i(seed)), ("idx", J::i(idx)), ("K", J::i(K)), ("T", J::i(T)), ("distinct_symbols", J::i(fc.arrivals.len())), ("sparse_threshold", J::i(fc.threshold))]);
    let sig = |what: &str, hi: usize| format!("C08 flood {what} seed={seed} idx={idx} history={hi}");
    let built = guarded(|| {
        let cfg = s.cfg();
        let enc = Encoder::new(&data, cfg);
        (cfg, enc)
    });
    let (cfg, enc) = match built {
        Ok(x) => x,
        Err(m) => {
            ctx.violation(sig("encoder-panic", 0), format!("encoder for K={K} panicked: {}", short(&m, 100)), replay());
            return;
        }
    };
    let base: Vec<(u8, u32)> = fc.arrivals.iter().map(|&e| (0u8, e)).collect();
    let mut finals = vec![];
    for hi in 0..5usize {
        let mut hist = base.clone();
        match hi {
            0 => {}                  // flood first (as generated)
            1 => hist.reverse(),     // flood last
            2 => hist.sort_unstable(),
            _ => rng.shuffle(&mut hist),
        }
        // a few re-deliveries in between and after the end
        for _ in 0..rng.below(6) {
            let p = *rng.pick(&base);
            let at = rng.below(hist.len() as u64 + 1) as usize;
            hist.insert(at, p);
        }
        let pk = match guarded(|| packets_for(&enc, &[K], &hist)) {
            Ok(p) => p,
            Err(m) => {
                ctx.violation(sig("packets-panic", hi), format!("producing packets panicked: {}", short(&m, 100)), replay());
                return;
            }
        };
        let mut d1 = Decoder::new(cfg);
        d1.verif_set_sparse_threshold(fc.threshold);
        let mut oracle = SetOracle::new(gf, &[K]);
        let mut first: Option<Vec<u8>> = None;
        for (i, p) in pk.iter().enumerate() {
            let (_, e) = hist[i];
            oracle.add(0, e);
            let a = match guarded(|| if hi % 2 == 0 { d1.decode(p.clone()) } else { d1.add_new_packet(p.clone()); d1.get_result() }) {
                Ok(a) => a,
                Err(m) => {
                    ctx.violation(sig("decoder-panic", hi), format!("K={K}: decoder panicked at call {i} (ESI={e}) of flood history {hi}: {}", short(&m, 120)), replay());
                    return;
                }
            };
            st.calls.fetch_add(1, Relaxed);
            if a.is_some() != oracle.all() {
                ctx.violation(
                    sig("set-determinism", hi),
                    format!("K={K}: after call {i} of flood history {hi} ({} distinct symbols received, {} of them before the flood ended) the decoder answers {} but the set of distinct symbols {} the block", oracle.have[0].len(), fc.batch_first, if a.is_some() { "Some" } else { "None" }, if oracle.all() { "determines" } else { "does not determine" }),
                    replay(),
                );
                return;
            }
            if let Some(v) = a {
                if v != data {
                    ctx.violation(sig("wrong-bytes", hi), format!("K={K}: flood history {hi} call {i}: wrong bytes"), replay());
                    return;
                }
                if first.is_none() {
                    first = Some(v);
                }
            }
        }
        st.histories.fetch_add(1, Relaxed);
        st.oracle_evals.fetch_add(oracle.evals, Relaxed);
        finals.push(first.is_some());
        // the same packets in one block-level call
        if hi == 0 || hi == 1 {
            let one = guarded(|| {
                let mut d = SourceBlockDecoder::new(0, &cfg, (K * T) as u64);
                d.verif_set_sparse_threshold(fc.threshold);
                d.decode(pk.iter().cloned())
            });
            match one {
                Err(m) => ctx.violation(sig("batch-panic", hi), format!("K={K}: one-shot decode of the flood set panicked: {}", short(&m, 120)), replay()),
                Ok(v) => {
                    if v.is_some() != first.is_some() {
                        ctx.violation(sig("batch-vs-single", hi), format!("K={K}: one-shot decode of the flood set answers {} but packet-by-packet delivery ends with {}", v.is_some(), first.is_some()), replay());
                    }
                }
            }
        }
    }
    if finals.iter().any(|&f| f != finals[0]) {
        ctx.violation(sig("final-answers-differ", 0), format!("K={K}: the same {} distinct symbols delivered flood-first / flood-last / sorted / shuffled ended with different answers {:?}", base.len(), finals), replay());
    }
    st.flood_sets.fetch_add(1, Relaxed);
}

/// Row flood at block level: a block decoder that has already answered keeps receiving repair symbols
/// until it holds more than 2^16 of them (in a few large calls); every later return must be the identical
/// bytes, and a fresh decoder given everything in one call must agree.
fn run_row_flood(ctx: &Ctx, seed: u64, idx: u64, st: &Stats) {
    let mut rng = Rng::derive(seed, 0x080a, idx);
    let K = *rng.pick(&[5usize, 10, 11, 13, 26, 55]);
    let T = *rng.pick(&[1usize, 2, 4]);
    let data = rng.bytes(K * T);
    let threshold = *rng.pick(&[0u32, 250, u32::MAX]);
    let total = 65_536 - 40 + rng.below(120) as usize;
    let replay = J::obj(vec![("flood", J::i(2)), ("seed", J::i(seed)), ("idx", J::i(idx)), ("K", J::i(K)), ("T", J::i(T)), ("symbols", J::i(total)), ("sparse_threshold", J::i(threshold))]);
    let sig = |what: &str| format!("C08 row-flood {what} seed={seed} idx={idx}");
    let r = guarded(|| {
        let cfg = raptorq::ObjectTransmissionInformation::new((K * T) as u64, T as u16, 1, 1, 1);
        let enc = raptorq::SourceBlockEncoder::new(0, &cfg, &data);
        let lost = rng.range(1, (K as u64).min(3)) as usize;
        let mut first: Vec<EncodingPacket> = enc.source_packets().into_iter().skip(lost).collect();
        first.extend(enc.repair_packets(0, lost as u32 + 3));
        let rest = enc.repair_packets(lost as u32 + 3, (total - first.len()) as u32);
        let mk = || {
            let mut d = SourceBlockDecoder::new(0, &cfg, (K * T) as u64);
            d.verif_set_sparse_threshold(threshold);
            d
        };
        let mut d = mk();
        let mut answers = vec![d.decode(first.clone())];
        let nchunks = rng.range(1, 4) as usize;
        let per = rest.len().div_ceil(nchunks);
        for c in rest.chunks(per) {
            answers.push(d.decode(c.to_vec()));
        }
        let one_shot = mk().decode(first.into_iter().chain(rest.into_iter()));
        (answers, one_shot)
    });
    st.calls.fetch_add(1, Relaxed);
    match r {
        Err(m) => ctx.violation(sig("panic"), format!("K={K}: a block decoder that keeps receiving repair symbols up to {total} in total panicked: {}", short(&m, 140)), replay),
        Ok((answers, one_shot)) => {
            let firsts = answers.iter().position(|a| a.is_some());
            if let Some(f) = firsts {
                for (i, a) in answers.iter().enumerate().skip(f) {
                    match a {
                        Some(v) if *v == data => {}
                        Some(_) => {
                            ctx.violation(sig("unstable"), format!("K={K}, T={T}: the block decoder answered after call {f}; after call {i} (more repair symbols, {total} in total at the end) it returns different, wrong bytes"), replay.clone());
                            return;
                        }
                        None => {
                            ctx.violation(sig("answer-withdrawn"), format!("K={K}: the block decoder answered after call {f} but answers None after call {i}"), replay.clone());
                            return;
                        }
                    }
                }
            }
            if one_shot.is_some() != answers.last().unwrap().is_some() || one_shot.as_ref().map(|v| *v != data).unwrap_or(false) {
                ctx.violation(sig("one-shot"), format!("K={K}: {total} symbols in one call give {:?} (length), delivered in {} calls the last answer is {:?}; the object has {} bytes", one_shot.as_ref().map(|v| v.len()), answers.len(), answers.last().unwrap().as_ref().map(|v| v.len()), data.len()), replay);
            }
        }
    }
    st.row_floods.fetch_add(1, Relaxed);
}

pub fn run(ctx: &Ctx) -> i32 {
    let gf = Gf::new();
    let st = Stats::default();
    if let Some(p) = &ctx.args.replay {
        let j = parse_json(&std::fs::read_to_string(p).expect("replay file")).expect("json");
        let c = j.get("case").unwrap();
        ctx.eval(1);
        if c.get("flood").and_then(|f| f.as_u64()) == Some(2) {
            run_row_flood(ctx, c.u("seed"), c.u("idx"), &st);
        } else if c.get("flood").and_then(|f| f.as_u64()) == Some(1) {
            run_flood_set(ctx, &gf, c.u("seed"), c.u("idx"), &st);
        } else {
            run_set(ctx, &gf, c.u("seed"), c.u("idx"), &st);
        }
        ctx.nontrivial(1);
        ctx.nontrivial(2);
        return ctx.finish("replay of one recorded packet set (all its histories)", &[], vec![]);
    }
    crashlog::set_case_fields(&["seed", "idx", "flood"]);
    let n = ctx.args.ex_u64("n", ctx.args.pick(12000, 120000)) as usize;
    par_for(n, |i| {
        if ctx.too_many_violations() {
            return;
        }
        crashlog::note(crashlog::CASE, &[ctx.seed(), i as u64, 0]);
        run_set(ctx, &gf, ctx.seed(), i as u64, &st);
        ctx.eval(1);
        if i < 3 {
            let c = gen_case(ctx.seed() ^ 0x0808_0808, i as u64, 0, 60, 48);
            ctx.sample(|| J::obj(vec![("idx", J::i(i)), ("shape", c.shape.json()), ("distinct_packets", J::i(c.history.iter().collect::<HashSet<_>>().len())), ("histories", J::s("8..14 (quick) / 8..30 (thorough): in order, reversed, sorted, round-robin, shuffled; duplicates 0-3x immediate or later; 5-50 re-deliveries after the end; new packets after completion"))]));
        }
    });
    if ctx.args.ex("n").is_none() {
        par_for(ctx.args.pick(300, 6000), |i| {
            if !ctx.too_many_violations() {
                crashlog::note(crashlog::CASE, &[ctx.seed(), i as u64, 1]);
                run_flood_set(ctx, &gf, ctx.seed(), i as u64, &st);
                ctx.eval(1);
            }
        });
    }
    if ctx.args.ex("n").is_none() {
        par_for(ctx.args.pick(12, 200), |i| {
            if !ctx.too_many_violations() {
                crashlog::note(crashlog::CASE, &[ctx.seed(), i as u64, 2]);
                run_row_flood(ctx, ctx.seed(), i as u64, &st);
                ctx.eval(1);
            }
        });
    }
    ctx.cov("row_floods_(block_decoder_fed_on_to_about_2^16_symbols_after_it_answered)", J::i(st.row_floods.load(Relaxed)));
    ctx.cov("flood_sets_(more_than_L_dependent_repair_symbols_before_/_after_the_completing_ones)", J::i(st.flood_sets.load(Relaxed)));
    ctx.cov("histories_run", J::i(st.histories.load(Relaxed)));
    ctx.cov("decoder_calls_monitored_x3_observers", J::i(st.calls.load(Relaxed)));
    ctx.cov("rank_oracle_evaluations", J::i(st.oracle_evals.load(Relaxed)));
    ctx.cov("packet_sets_that_complete", J::i(st.completed_sets.load(Relaxed)));
    ctx.cov("packet_sets_that_never_complete", J::i(st.incomplete_sets.load(Relaxed)));
    let q = ctx.args.ex("n").is_none();
    ctx.floor("histories_with_duplicates_delivered_after_completion", st.dup_after_completion.load(Relaxed), if q { 1000 } else { 1 });
    ctx.floor("clones_compared", st.clones.load(Relaxed), if q { 1000 } else { 1 });
    ctx.floor("block_level_batchings_compared", st.batchings.load(Relaxed), if q { 500 } else { 1 });
    ctx.floor("double_count_traps_(K-1_distinct_source_+_duplicate)", st.trap.load(Relaxed), if q { 500 } else { 1 });
    ctx.finish(
        "packet set = distinct (SBN,ESI) ids of a generated case (Z up to 8, K up to 60, loss 0-70 %, repair ESIs over the 24-bit range, all three sparse thresholds); per set 8-30 delivery histories (orders: as generated / reversed / sorted / round-robin over blocks / shuffled; each packet repeated 0-3x immediately or later; 5-50 re-deliveries after the end; new packets after completion; the K-1-distinct-source-plus-duplicate trap first). Trace checker after EVERY call: decode() = add_new_packet()+get_result() = a decoder fed through a random mix of both entry points = clone taken at a random point; answer is Some iff every block's distinct received set is decodable (all source present or rank oracle of C02); once Some, always the identical bytes = the object. Block level: packet-by-packet = random batches = one shot, at every batch boundary. Flood sets: more than L repair symbols from a few classes of ids with identical LT rows (rank far below L) plus the completing symbols, delivered flood-first / flood-last / sorted / shuffled and in one call, same oracle after every call. non-trivial = history with at least one duplicate delivered after completion; distinct by history hash",
        &["rank oracle of C02 (independent RFC model) as the reference for what a set determines"],
        vec![],
    )
}
