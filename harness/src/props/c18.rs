//! C18 — the repair stream is addressed consistently (fountain property).
#![allow(non_snake_case)]
use super::util::*;
use crate::common::*;
use raptorq::{Encoder, EncodingPacket, ObjectTransmissionInformation as Oti, SourceBlockEncoder, SourceBlockEncodingPlan};
use std::collections::HashMap;
use std::sync::atomic::{AtomicU64, Ordering::Relaxed};

fn run_block(ctx: &Ctx, K: usize, T: usize, seed: u64, exhaustive_small: bool, st: &[AtomicU64; 4]) {
    let mut rng = Rng::new(seed);
    let data = rng.bytes(K * T);
    let sbn = rng.next() as u8;
    let cfg = Oti::new((K * T) as u64, T as u16, 1, 1, 1);
    let case = |s: u32, n: u32| J::obj(vec![("K", J::i(K)), ("T", J::i(T)), ("data_seed", J::i(seed)), ("exhaustive_small", J::B(exhaustive_small)), ("window_start", J::i(s)), ("window_len", J::i(n))]);
    let encs = guarded(|| {
        let plan = SourceBlockEncodingPlan::generate(K as u16);
        let plan2 = SourceBlockEncodingPlan::generate(K as u16);
        let e0 = SourceBlockEncoder::new(sbn, &cfg, &data);
        let e1 = SourceBlockEncoder::with_encoding_plan(sbn, &cfg, &data, &plan);
        let e2 = SourceBlockEncoder::with_encoding_plan(sbn, &cfg, &data, &plan2.clone());
        (e0, e1, e2, plan == plan2)
    });
    let (e0, e1, e2, plans_eq) = match encs {
        Ok(x) => x,
        Err(m) => {
            ctx.violation(format!("C18 build-panic K={K}"), format!("K={K}: building encoders panicked: {}", short(&m, 100)), case(0, 0));
            return;
        }
    };
    st[2].fetch_add(1, Relaxed);
    if !(e0 == e1 && e1 == e2 && plans_eq) {
        ctx.violation(format!("C18 plans K={K} T={T}"), format!("K={K} T={T}: encoders built from new(), a generated plan and a second/cloned plan are not equal (plans equal: {plans_eq})"), case(0, 0));
    }
    // single-packet reference, memoised
    let mut single: HashMap<u32, EncodingPacket> = HashMap::new();
    let mut windows: Vec<(u32, u32)> = vec![];
    if exhaustive_small {
        for s in 0..=50u32 {
            for n in 0..=20u32 {
                windows.push((s, n));
            }
        }
    }
    let max_start = (1u32 << 24) - K as u32;
    for _ in 0..ctx.args.pick(600, 3000) {
        let n = match rng.below(4) {
            0 => rng.below(3) as u32,
            1 => rng.range(2, 20) as u32,
            _ => rng.range(2, 300) as u32,
        };
        let s = match rng.below(5) {
            0 => rng.below(64) as u32,
            1 => max_start - n - rng.below(4) as u32, // ends at or just before the last ESI 2^24-1
            2 => max_start - n,
            _ => rng.log_range(1, (max_start - n) as u64) as u32,
        };
        windows.push((s, n));
    }
    // a window longer than 2^16 packets (small blocks only): compared with single requests at sampled
    // positions on both sides of 2^16 and at its ends
    let long_window = K <= 11 && T <= 33;
    if long_window {
        windows.push((rng.below(1000) as u32, 66_000 + rng.below(6000) as u32));
    }
    // overlapping pairs
    for _ in 0..40 {
        let s = rng.log_range(1, (max_start - 700) as u64) as u32;
        let n = rng.range(5, 300) as u32;
        windows.push((s, n));
        windows.push((s + rng.below(n as u64) as u32, rng.range(1, 300) as u32));
    }
    let mut local = vec![];
    for (wi, &(s, n)) in windows.iter().enumerate() {
        let enc = [&e0, &e1, &e2][wi % 3];
        let w = match guarded(|| enc.repair_packets(s, n)) {
            Ok(w) => w,
            Err(m) => {
                ctx.violation(format!("C18 window-panic K={K} s={s} n={n}"), format!("K={K}: repair_packets({s},{n}) (last ESI {} <= 2^24-1) panicked: {}", K as u64 + s as u64 + n as u64 - 1, short(&m, 100)), case(s, n));
                return;
            }
        };
        st[0].fetch_add(1, Relaxed);
        if w.len() != n as usize {
            ctx.violation(format!("C18 window-len K={K} s={s} n={n}"), format!("K={K}: repair_packets({s},{n}) returned {} packets", w.len()), case(s, n));
            return;
        }
        for (i, p) in w.iter().enumerate() {
            let esi = K as u32 + s + i as u32;
            let (b, e) = pid(p);
            if b != sbn || e != esi {
                ctx.violation(format!("C18 id K={K} s={s} n={n} i={i}"), format!("K={K}: element {i} of repair_packets({s},{n}) carries id (SBN={b},ESI={e}), expected (SBN={sbn},ESI={esi})"), case(s, n));
                return;
            }
            // compare against the single-packet request for the same ESI (sampled inside long windows)
            if n <= 24 || i < 3 || i + 3 >= n as usize || i % 17 == 0 {
                let one = single.entry(esi).or_insert_with(|| e0.repair_packets(esi - K as u32, 1).pop().unwrap());
                st[1].fetch_add(1, Relaxed);
                if one != p {
                    ctx.violation(format!("C18 window-vs-single K={K} T={T} s={s} n={n} i={i}"), format!("K={K} T={T}: element {i} of repair_packets({s},{n}) (ESI {esi}) differs from repair_packets({},1)[0]", esi - K as u32), case(s, n));
                    return;
                }
            }
        }
        if n >= 2 {
            local.push((K as u64) << 44 | (s as u64) << 12 | n as u64);
        }
    }
    ctx.nontrivial_many(local);
}

const PAIR_BASE: u64 = 1 << 40;

fn run_object(ctx: &Ctx, seed: u64, idx: u64, st: &[AtomicU64; 4]) {
    let mut rng = Rng::derive(seed, 0x1818, idx);
    // idx >= PAIR_BASE: directed sweep - an object of 2 or 3 blocks of k+1 and k symbols for every k, so that
    // every pair of neighbouring block sizes (and with it every pair of neighbouring Table-2 rows) occurs
    // inside one Encoder, always compared with stand-alone encoders
    let forced = idx >= PAIR_BASE;
    let s = if forced {
        let k = (idx - PAIR_BASE) as usize + 1;
        let z = 2 + k % 2;
        let T = 1 + k % 3;
        crate::props::util::Shape { F: (k * z + 1) * T, T, Z: z, N: 1, Al: 1 }
    } else {
        gen_shape(&mut rng, 120, 48, 8)
    };
    // data: random, constant, or periodic with the period of one symbol / one short block, so that
    // consecutive source blocks can be byte-identical (block numbers must still differ)
    let data = match idx % 4 {
        0 => vec![0u8; s.F],
        1 => {
            let period = if rng.chance(1, 2) { s.T } else { s.T * (s.kt() / s.Z).max(1) };
            let pat = rng.bytes(period);
            (0..s.F).map(|i| pat[i % period]).collect()
        }
        _ => rng.bytes(s.F),
    };
    let r = if forced { 3 } else { rng.below(7) as u32 };
    let case = J::obj(vec![("object_case", J::i(idx)), ("seed", J::i(seed)), ("shape", s.json()), ("repair_per_block", J::i(r))]);
    let ks = s.block_ks();
    let got = guarded(|| {
        let enc = Encoder::new(&data, s.cfg());
        let all = enc.get_encoded_packets(r);
        // per block: the block encoders' own answers
        let per: Vec<(Vec<EncodingPacket>, Vec<EncodingPacket>)> = enc.get_block_encoders().iter().map(|b| (b.source_packets(), b.repair_packets(0, r))).collect();
        // every block once more as a stand-alone encoder of the same bytes, built on a fresh thread in
        // ascending block-size order: whatever the object encoder computed before must not matter
        let standalone_differs = if r > 0 && (idx % 2 == 0 || forced) {
            let cfg = s.cfg();
            let mut order: Vec<usize> = (0..s.Z).collect();
            order.sort_by_key(|&z| ks[z]);
            let blocks: Vec<Vec<u8>> = (0..s.Z).map(|z| block_bytes(&data, &s, z)).collect();
            let alone: Vec<(usize, Vec<EncodingPacket>)> = std::thread::scope(|sc| {
                sc.spawn(|| {
                    order
                        .iter()
                        .map(|&z| {
                            // block_bytes = the block's K*T bytes of the object (zero padded at the very end)
                            let b = SourceBlockEncoder::new(z as u8, &cfg, &blocks[z]);
                            (z, b.repair_packets(0, r))
                        })
                        .collect()
                })
                .join()
                .unwrap()
            });
            alone.into_iter().find(|(z, rp)| *rp != per[*z].1).map(|(z, _)| z)
        } else {
            None
        };
        (all, per, standalone_differs)
    });
    st[3].fetch_add(1, Relaxed);
    match got {
        Err(m) => ctx.violation(format!("C18 object-panic idx={idx}"), format!("{:?}: panicked: {}", s, short(&m, 100)), case),
        Ok((all, per, standalone_differs)) => {
            if let Some(z) = standalone_differs {
                ctx.violation(format!("C18 object-vs-standalone idx={idx}"), format!("{:?}: the repair packets of block {z} (K={}) inside Encoder differ from those of a stand-alone SourceBlockEncoder built for the same bytes on a fresh thread", s, ks[z]), case.clone());
            }
            let mut want: Vec<(u8, u32)> = vec![];
            for (z, &K) in ks.iter().enumerate() {
                for e in 0..(K as u32 + r) {
                    want.push((z as u8, e));
                }
            }
            let ids: Vec<(u8, u32)> = all.iter().map(pid).collect();
            if ids != want {
                let k = ids.iter().zip(want.iter()).position(|(a, b)| a != b);
                ctx.violation(format!("C18 object-order idx={idx}"), format!("{:?}, {r} repair per block: packet list ids deviate from 'block by block, source 0..K-1 then repair K..K+r-1' at position {k:?} (got {} packets, expected {})", s, ids.len(), want.len()), case);
                return;
            }
            let distinct: std::collections::HashSet<_> = ids.iter().collect();
            let flat: Vec<&EncodingPacket> = per.iter().flat_map(|(a, b)| a.iter().chain(b.iter())).collect();
            if distinct.len() != ids.len() || flat.len() != all.len() || flat.iter().zip(all.iter()).any(|(a, b)| *a != b) {
                ctx.violation(format!("C18 object-content idx={idx}"), format!("{:?}: get_encoded_packets({r}) is not the concatenation of the block encoders' source and repair packets / ids not distinct", s), case);
            }
        }
    }
}

pub fn run(ctx: &Ctx) -> i32 {
    let st: [AtomicU64; 4] = Default::default();
    if let Some(p) = &ctx.args.replay {
        let j = parse_json(&std::fs::read_to_string(p).expect("replay file")).expect("json");
        let c = j.get("case").unwrap();
        ctx.eval(1);
        if c.get("object_case").is_some() {
            run_object(ctx, c.u("seed"), c.u("object_case"), &st);
        } else {
            run_block(ctx, c.u("K") as usize, c.u("T") as usize, c.u("data_seed"), matches!(c.get("exhaustive_small"), Some(J::B(true))), &st);
        }
        ctx.nontrivial(1);
        ctx.nontrivial(2);
        return ctx.finish("replay of one recorded block", &[], vec![]);
    }
    let ks = [1usize, 3, 10, 11, 101, 257, 1000];
    let ts = [1usize, 8, 33, 1400, 4100];
    let mut cases = vec![];
    for &K in &ks {
        for &T in &ts {
            cases.push((K, T));
        }
    }
    if !ctx.args.quick() {
        for K in [2usize, 9, 12, 26, 55, 250, 251, 477, 5000, 20000, 56403] {
            cases.push((K, 4));
        }
    }
    // the checked build (debug assertions + overflow checks; its solver re-verifies itself in O(L^3))
    // runs the same relations on the smaller blocks
    let kmax = ctx.args.ex_u64("kmax", 56403) as usize;
    cases.retain(|&(K, _)| K <= kmax);
    par_for(cases.len(), |i| {
        let (K, T) = cases[i];
        let seed = splitmix(&mut (ctx.seed() ^ (i as u64) << 16 ^ 0x1818));
        run_block(ctx, K, T, seed, K == 3 || K == 10, &st);
        ctx.eval(1);
        if i < 3 {
            ctx.sample(|| J::obj(vec![("K", J::i(K)), ("T", J::i(T)), ("windows", J::s("every (s,n) in 0..=50 x 0..=20 for K in {3,10}; random windows n<=300, s log-uniform up to 2^24-K-n incl. windows ending exactly at ESI 2^24-1; overlapping pairs"))]));
        }
    });
    let nobj = ctx.args.ex_u64("nobj", ctx.args.pick(20000, 200000)) as usize;
    par_for(nobj, |i| run_object(ctx, ctx.seed(), i as u64, &st));
    ctx.eval(nobj);
    let npair = ctx.args.ex_u64("kmax", ctx.args.pick(700, 3000)).min(ctx.args.pick(700, 3000)) as usize;
    par_for(npair, |i| run_object(ctx, ctx.seed(), PAIR_BASE + i as u64, &st));
    ctx.eval(npair);
    ctx.cov("objects_of_neighbouring_block_sizes_(k+1,_k)_for_every_k_up_to", J::i(npair));
    ctx.cov("windows_requested", J::i(st[0].load(Relaxed)));
    ctx.cov("blocks_with_three_plan_instances_compared", J::i(st[2].load(Relaxed)));
    ctx.cov("objects_whose_packet_list_order_was_checked", J::i(st[3].load(Relaxed)));
    ctx.floor("window_elements_compared_with_single_requests", st[1].load(Relaxed), 10_000);
    ctx.finish(
        "per block (K in {1,3,10,11,101,257,1000} x T in {1,8,33,1400,4100}; thorough adds more K up to 56403): encoders from new(), from a generated plan and from a second/cloned plan must be equal; for every window (s,n) (exhaustive s 0..=50 x n 0..=20 for K in {3,10}; random n<=300 with s log-uniform up to 2^24-K-n, one window of 66 000-72 000 packets for K <= 11, including windows ending exactly at ESI 2^24-1; overlapping pairs) element i must carry (SBN, ESI=K+s+i) and equal the single-packet request for that ESI (so overlapping windows agree); per object (multi-block incl. KL != KS; data random, constant or periodic so that consecutive blocks can be byte-identical): get_encoded_packets(r) = block by block, source 0..K-1 then repair K..K+r-1, all ids distinct, equal to the block encoders' own packets; every second object, and one directed object of 2-3 blocks of k+1 and k symbols for every k up to 700 / 3000, is compared block by block with stand-alone SourceBlockEncoders built on a fresh thread. What happens beyond ESI 2^24-1 is outside the property and never requested. non-trivial = window with n>=2; distinct by (K,s,n)",
        &["byte-correctness of each symbol is C04's business; here only addressing consistency"],
        vec![],
    )
}
