//! C05 — object partitioning and source packet layout follow RFC 6330 4.4.1.2.
#![allow(non_snake_case)]
use super::util::*;
use crate::common::*;
use raptorq::{calculate_block_offsets, Decoder, Encoder};
use std::sync::atomic::{AtomicU64, Ordering::Relaxed};

#[derive(Default)]
struct Stats {
    z_gt1: AtomicU64,
    n_gt1: AtomicU64,
    padded: AtomicU64,
    kl_ne_ks: AtomicU64,
    tl_ne_ts: AtomicU64,
    all3: AtomicU64,
}

fn gen(rng: &mut Rng, stratum: u64) -> Shape {
    match stratum {
        // many blocks
        1 => {
            let T = *rng.pick(&[1usize, 2, 3, 8, 16]);
            let Z = rng.range(2, 255) as usize;
            let Kt = rng.range(Z as u64, (Z * 4) as u64) as usize;
            let pad = rng.below(T as u64) as usize;
            Shape { F: Kt * T - pad, T, Z, N: 1, Al: 1 }
        }
        // many sub-blocks
        2 => {
            let Al = *rng.pick(&[1usize, 2, 4, 8, 3, 5, 6, 10, 12, 255]);
            let units = rng.range(1, 200.min(65535 / Al as u64)) as usize;
            let T = Al * units;
            let N = rng.range(1, units as u64) as usize;
            let Kt = rng.range(1, 12) as usize;
            let Z = rng.range(1, Kt as u64) as usize;
            let pad = rng.below(T as u64) as usize;
            Shape { F: Kt * T - pad, T, Z, N, Al }
        }
        // huge symbols and sub-block counts beyond 12 bits
        3 => {
            let Al = *rng.pick(&[1usize, 2, 4, 8, 3, 6, 7, 12, 100]);
            let units = rng.range(2000 / Al as u64, 65535 / Al as u64) as usize;
            let T = Al * units;
            let N = match rng.below(3) {
                0 => units,
                1 => rng.range(1, units as u64) as usize,
                _ => rng.range(1, 16) as usize,
            };
            let Kt = rng.range(1, 14) as usize;
            let Z = rng.range(1, Kt.min(4) as u64) as usize;
            Shape { F: Kt * T - rng.below(T as u64) as usize, T, Z, N, Al }
        }
        _ => gen_shape(rng, 60, 192, 9),
    }
}

fn run_case(ctx: &Ctx, s: &Shape, st: &Stats) {
    let data = position_coded(s.F);
    let case = || J::obj(vec![("shape", s.json())]);
    let sig = |what: &str| format!("C05 {what} F={} T={} Z={} N={} Al={}", s.F, s.T, s.Z, s.N, s.Al);
    let want = layout(&data, s);
    let r = guarded(|| {
        let cfg = s.cfg();
        let enc = Encoder::new(&data, cfg);
        let pk = enc.get_encoded_packets(0);
        let offs = calculate_block_offsets(&data, &cfg);
        let mut dec = Decoder::new(cfg);
        let mut out = None;
        // both entry points of the decoder, alternating by configuration (and mixed for every third one)
        let mode = s.hash() % 3;
        for (i, p) in pk.iter().cloned().enumerate() {
            out = if mode == 0 || (mode == 2 && i % 2 == 0) {
                dec.decode(p)
            } else {
                dec.add_new_packet(p);
                dec.get_result()
            };
        }
        (pk, offs, out)
    });
    let (pk, offs, out) = match r {
        Err(m) => {
            ctx.violation(sig("panic"), format!("encoding/decoding a valid configuration {:?} panicked: {}", s, short(&m, 120)), case());
            return;
        }
        Ok(x) => x,
    };
    // expected packet list: for z in 0..Z, ESI 0..K_z-1, SBN=z, payload = symbol (T bytes)
    let mut idx = 0;
    let mut bad: Option<String> = None;
    'outer: for (z, syms) in want.iter().enumerate() {
        for (m, sym) in syms.iter().enumerate() {
            match pk.get(idx) {
                None => {
                    bad = Some(format!("packet list too short: {} packets, expected {}", pk.len(), want.iter().map(|b| b.len()).sum::<usize>()));
                    break 'outer;
                }
                Some(p) => {
                    let (sbn, esi) = pid(p);
                    if sbn as usize != z || esi as usize != m {
                        bad = Some(format!("packet #{idx} has id (SBN={sbn},ESI={esi}), RFC layout expects (SBN={z},ESI={m})"));
                        break 'outer;
                    }
                    if p.data().len() != s.T {
                        bad = Some(format!("packet (SBN={z},ESI={m}) payload is {} bytes, T={}", p.data().len(), s.T));
                        break 'outer;
                    }
                    if let Some(d) = first_diff(p.data(), sym) {
                        bad = Some(format!("packet (SBN={z},ESI={m}) byte {d} is {:#04x}, RFC 4.4.1.2 layout gives {:#04x}", p.data()[d], sym[d]));
                        break 'outer;
                    }
                }
            }
            idx += 1;
        }
    }
    if bad.is_none() && pk.len() != idx {
        bad = Some(format!("packet list has {} packets, expected {idx}", pk.len()));
    }
    if let Some(b) = bad {
        ctx.violation(sig("layout"), format!("{:?}: {b}", s), case());
    }
    // block offsets = Partition[Kt, Z] blocks laid end to end
    let ks = s.block_ks();
    let mut off = 0usize;
    let want_offs: Vec<(usize, usize)> = ks
        .iter()
        .map(|k| {
            let r = (off, off + k * s.T);
            off += k * s.T;
            r
        })
        .collect();
    if offs != want_offs {
        ctx.violation(sig("offsets"), format!("{:?}: calculate_block_offsets = {:?}, Partition[Kt,Z] gives {:?}", s, short(&format!("{offs:?}"), 200), short(&format!("{want_offs:?}"), 200)), case());
    }
    // decoder inverts the layout
    match out {
        Some(v) if v == data => {}
        other => {
            let d = other.as_ref().map(|v| (v.len(), first_diff(v, &data)));
            ctx.violation(sig("decode"), format!("{:?}: decoder fed all source packets returned {:?} (len, first differing byte) instead of the {}-byte object", s, d, s.F), case());
        }
    }
    // the decoder must invert the same layout when source symbols have to be rebuilt from repair
    // symbols: (i) packet by packet with little overhead, (ii) block level in one batch with a large
    // overhead (the decoder's GF(2)-only path), for configurations with sub-blocks in particular
    {
        let mut rng = Rng::new(s.hash());
        let ks = s.block_ks();
        let r = guarded(|| {
            let cfg = s.cfg();
            let enc = Encoder::new(&data, cfg);
            let mut dec = Decoder::new(cfg);
            let mut out = None;
            let mut lost_any = false;
            // blocks complete in a random order (in order / reversed / shuffled)
            let mut order: Vec<usize> = (0..s.Z).collect();
            match rng.below(3) {
                0 => {}
                1 => order.reverse(),
                _ => rng.shuffle(&mut order),
            }
            for z in order {
                let be = &enc.get_block_encoders()[z];
                let lose = rng.below(ks[z] as u64) as usize;
                for (i, p) in be.source_packets().into_iter().enumerate() {
                    if i == lose {
                        lost_any = true;
                        continue;
                    }
                    if out.is_none() {
                        out = if s.hash() % 2 == 0 { dec.decode(p) } else { dec.add_new_packet(p); dec.get_result() };
                    }
                }
                for p in be.repair_packets(rng.below(1000) as u32, 4) {
                    if out.is_none() {
                        out = if s.hash() % 2 == 0 { dec.decode(p) } else { dec.add_new_packet(p); dec.get_result() };
                    }
                }
            }
            // block level, one batch: all but one source symbol + 24 repair symbols
            let z = rng.below(s.Z as u64) as usize;
            let be = &enc.get_block_encoders()[z];
            let lose = rng.below(ks[z] as u64) as usize;
            let mut pk: Vec<_> = be.source_packets().into_iter().enumerate().filter(|(i, _)| *i != lose).map(|(_, p)| p).collect();
            pk.extend(be.repair_packets(rng.below(100000) as u32, 24));
            let mut bd = raptorq::SourceBlockDecoder::new(z as u8, &cfg, (ks[z] * s.T) as u64);
            let blk = bd.decode(pk);
            (out, lost_any, z, blk)
        });
        match r {
            Err(m) => ctx.violation(sig("repair-decode-panic"), format!("{:?}: decoding with lost source packets panicked: {}", s, short(&m, 120)), case()),
            Ok((out, _lost, z, blk)) => {
                if let Some(v) = out {
                    if v != data {
                        ctx.violation(sig("repair-decode"), format!("{:?}: decoder given all but one source packet per block plus repair packets returned {} bytes differing from the object at {:?}", s, v.len(), first_diff(&v, &data)), case());
                    }
                }
                // 4 repair symbols for one lost symbol can (rarely) be rank deficient: None is not an error here
                match blk {
                    Some(v) => {
                        let want = block_bytes(&data, s, z);
                        if v != want {
                            ctx.violation(sig("batch-repair-decode"), format!("{:?}: block {z} decoded in one batch (K-1 source + 24 repair symbols) differs from the block's bytes at {:?}", s, first_diff(&v, &want)), case());
                        }
                    }
                    None => ctx.violation(sig("batch-repair-decode-none"), format!("{:?}: block {z}: K-1 source + 24 repair symbols in one batch were not decoded", s), case()),
                }
            }
        }
    }
    if s.nontrivial() {
        ctx.nontrivial(s.hash());
    }
    let (kl, ksm, _, zs) = partition(s.kt() as u128, s.Z as u128);
    let (tl, ts, _, ns) = partition((s.T / s.Al) as u128, s.N as u128);
    if s.Z > 1 {
        st.z_gt1.fetch_add(1, Relaxed);
    }
    if s.N > 1 {
        st.n_gt1.fetch_add(1, Relaxed);
    }
    if s.padding() > 0 {
        st.padded.fetch_add(1, Relaxed);
    }
    if kl != ksm && zs > 0 {
        st.kl_ne_ks.fetch_add(1, Relaxed);
    }
    if tl != ts && ns > 0 {
        st.tl_ne_ts.fetch_add(1, Relaxed);
    }
    if s.Z > 1 && s.N > 1 && s.padding() > 0 {
        st.all3.fetch_add(1, Relaxed);
    }
}

fn check_partition(ctx: &Ctx, i: u32, j: u32) {
    let want = partition(i as u128, j as u128);
    let got = guarded(|| raptorq::partition(i, j));
    let ok = matches!(got, Ok((a, b, c, d)) if (a as u128, b as u128, c as u128, d as u128) == want);
    if !ok {
        ctx.violation(format!("C05 partition({i},{j})"), format!("partition({i},{j}) = {got:?}, RFC Partition[I,J] = {want:?}"), J::obj(vec![("partition", J::arr_u64(&[i as u64, j as u64]))]));
    }
}

pub fn run(ctx: &Ctx) -> i32 {
    let st = Stats::default();
    if let Some(p) = &ctx.args.replay {
        let j = parse_json(&std::fs::read_to_string(p).expect("replay file")).expect("json");
        let c = j.get("case").unwrap();
        ctx.eval(1);
        if let Some(_) = c.get("partition") {
            let v = c.us("partition");
            check_partition(ctx, v[0] as u32, v[1] as u32);
        } else {
            run_case(ctx, &Shape::from_json(c.get("shape").unwrap()), &st);
        }
        ctx.nontrivial(1);
        ctx.nontrivial(2);
        return ctx.finish("replay of one recorded configuration", &[], vec![]);
    }
    let n = ctx.args.ex_u64("n", ctx.args.pick(100_000, 1_000_000)) as usize;
    // a few big blocks (more than 2^14 symbols) with sub-blocks: all-source decode and one lost symbol
    let big: Vec<Shape> = [(16385usize, 24usize, 4usize, 4usize), (20000, 16, 2, 8), (40000, 12, 3, 2), (56403, 8, 2, 4)]
        .iter()
        .map(|&(k, t, nsub, al)| Shape { F: k * t - 5, T: t, Z: 1, N: nsub, Al: al })
        .chain(std::iter::once(Shape { F: 39999 * 24 - 1, T: 24, Z: 2, N: 3, Al: 8 }))
        .collect();
    if ctx.args.ex("n").is_none() {
        par_for_threads(threads().min(5), big.len(), |i| {
            run_case(ctx, &big[i], &st);
            ctx.eval(1);
        });
    }
    par_for(n, |i| {
        if ctx.too_many_violations() {
            return;
        }
        let mut rng = Rng::derive(ctx.seed(), 5, i as u64);
        let stratum = match i % 10 {
            0 => 1,
            1 | 2 => 2,
            3 if i % 100 == 3 => 3,
            _ => 0,
        };
        let s = gen(&mut rng, stratum);
        run_case(ctx, &s, &st);
        ctx.eval(1);
        if i < 4 {
            ctx.sample(|| s.json());
        }
    });
    // partition() directly
    let np = ctx.args.pick(1_000_000usize, 20_000_000);
    par_for(64, |c| {
        let mut rng = Rng::derive(ctx.seed(), 55, c as u64);
        for _ in 0..np / 64 {
            let j = match rng.below(3) {
                0 => rng.range(1, 255),
                1 => rng.range(1, 65535),
                _ => rng.log_range(1, 1 << 31),
            } as u32;
            let i = match rng.below(3) {
                0 => rng.range(0, 70000),
                1 => rng.log_range(1, u32::MAX as u64),
                _ => (j as u64 * rng.range(0, 300) + rng.below(3)).min(u32::MAX as u64),
            } as u32;
            check_partition(ctx, i, j);
        }
    });
    ctx.eval(np);
    ctx.cov("partition_pairs_checked", J::i(np));
    ctx.floor("configs_with_Z_gt_1", st.z_gt1.load(Relaxed), 500);
    ctx.floor("configs_with_N_gt_1", st.n_gt1.load(Relaxed), 500);
    ctx.floor("configs_with_padding", st.padded.load(Relaxed), 500);
    ctx.floor("configs_with_KL_ne_KS", st.kl_ne_ks.load(Relaxed), 200);
    ctx.floor("configs_with_TL_ne_TS", st.tl_ne_ts.load(Relaxed), 200);
    ctx.floor("configs_with_Z_gt_1_and_N_gt_1_and_padding", st.all3.load(Relaxed), 100);
    ctx.finish(
        "valid configurations (F,T,Z,N,Al; Al any value incl. non powers of two) from four strata plus five big blocks (16 385 ... 56 403 symbols with 2-4 sub-blocks) (general small shapes; up to 255 blocks; up to 200 sub-blocks; symbol sizes up to 65535 with up to T/Al sub-blocks) with position-coded data; Encoder::get_encoded_packets(0) must equal, packet by packet, the list computed from RFC 4.4.1.2 (Partition[Kt,Z], Partition[T/Al,N], sub-symbol concatenation, zero padding of the tail only), calculate_block_offsets must equal the Partition blocks, and Decoder fed those packets must return the object; partition() compared with the wide-integer Partition on random pairs. non-trivial = Z>1 or N>1 or padding>0; distinct by shape",
        &["layout oracle written from RFC 6330 4.4.1.2 in the harness"],
        vec![],
    )
}
