//! C03 — reception overhead: failure odds shrink ~256x per extra symbol (statistical monitor).
#![allow(non_snake_case)]
use super::c02::oracle;
use crate::common::*;
use crate::refmodel::Gf;
use raptorq::{EncodingPacket, ObjectTransmissionInformation as Oti, SourceBlockDecoder, SourceBlockEncoder};
use std::collections::HashSet;
use std::sync::atomic::{AtomicU64, Ordering::Relaxed};

// ---- exact binomial machinery -------------------------------------------------------------
fn ln_gamma(x: f64) -> f64 {
    // Lanczos approximation (g = 7, n = 9), |error| < 1e-13 for x > 0
    const C: [f64; 9] = [
        0.99999999999980993, 676.5203681218851, -1259.1392167224028, 771.32342877765313, -176.61502916214059, 12.507343278686905, -0.13857109526572012, 9.9843695780195716e-6, 1.5056327351493116e-7,
    ];
    if x < 0.5 {
        return (std::f64::consts::PI / (std::f64::consts::PI * x).sin()).ln() - ln_gamma(1.0 - x);
    }
    let x = x - 1.0;
    let mut a = C[0];
    let t = x + 7.5;
    for (i, c) in C.iter().enumerate().skip(1) {
        a += c / (x + i as f64);
    }
    0.5 * (2.0 * std::f64::consts::PI).ln() + (x + 0.5) * t.ln() - t + a.ln()
}

/// ln P(X >= k) for X ~ Binomial(n, p)  (sums the smaller tail in log space)
fn ln_upper_tail(n: u64, k: u64, p: f64) -> f64 {
    if k == 0 {
        return 0.0;
    }
    if p <= 0.0 {
        return f64::NEG_INFINITY;
    }
    let ln_pmf = |i: u64| ln_gamma(n as f64 + 1.0) - ln_gamma(i as f64 + 1.0) - ln_gamma((n - i) as f64 + 1.0) + i as f64 * p.ln() + (n - i) as f64 * (1.0 - p).ln();
    // sum_{i >= k} pmf(i): terms decay geometrically beyond the mode; stop when negligible
    let mut i = k;
    let mut acc = f64::NEG_INFINITY;
    loop {
        let t = ln_pmf(i);
        acc = log_add(acc, t);
        if i >= n || (i as f64 > n as f64 * p && t < acc - 45.0) {
            break;
        }
        i += 1;
    }
    acc.min(0.0)
}
fn log_add(a: f64, b: f64) -> f64 {
    if a == f64::NEG_INFINITY {
        return b;
    }
    let (hi, lo) = if a > b { (a, b) } else { (b, a) };
    hi + (lo - hi).exp().ln_1p()
}

/// one-sided Clopper-Pearson lower confidence bound for p at error probability alpha
pub fn cp_lower(n: u64, k: u64, alpha: f64) -> f64 {
    if k == 0 {
        return 0.0;
    }
    let (mut lo, mut hi) = (0.0f64, k as f64 / n as f64);
    for _ in 0..80 {
        let mid = 0.5 * (lo + hi);
        if ln_upper_tail(n, k, mid) < alpha.ln() {
            lo = mid;
        } else {
            hi = mid;
        }
    }
    lo
}
/// one-sided upper bound (via the lower tail = 1 - upper tail of k+1 .. ; computed by symmetry)
pub fn cp_upper(n: u64, k: u64, alpha: f64) -> f64 {
    if k >= n {
        return 1.0;
    }
    // P(X <= k | p) = alpha  <=>  P(Y >= n-k | 1-p) = alpha with Y = n - X
    1.0 - cp_lower(n, n - k, alpha)
}

// ---- workload --------------------------------------------------------------------------------
#[derive(Clone, Copy, Debug, PartialEq, Eq, Hash)]
enum Mix {
    AllRepair,
    RandomSurvivors,
    FewLost,
    Pooled,
    /// all-repair set delivered one packet per decode() call (the answer after the last packet counts)
    Incremental,
    /// all-repair set, decoder forced onto the dense matrix back-end (threshold = infinity)
    Dense,
    /// all-repair set taken from the very top of the 24-bit ESI range (ISI = ESI + K' - K exceeds 2^24 - 1)
    TopEsis,
}
fn mix_name(m: Mix) -> &'static str {
    match m {
        Mix::AllRepair => "all-repair (ESIs uniform in [K,2^24))",
        Mix::RandomSurvivors => "uniformly random number of surviving source symbols",
        Mix::FewLost => "1-3 lost source symbols",
        Mix::Pooled => "all three mixes pooled",
        Mix::Incremental => "all-repair, delivered packet by packet (one decode call per symbol)",
        Mix::Dense => "all-repair, decoder forced onto the dense matrix back-end",
        Mix::TopEsis => "all-repair, ESIs from the last 2K+64 ids of the 24-bit range incl. 2^24-1",
    }
}

struct Stratum {
    K: usize,
    h: usize,
    mix: Mix,
    n: u64,
    fails: AtomicU64,
    done: AtomicU64,
    lost_decodes: AtomicU64,
}

const BOUNDS: [f64; 3] = [1e-2, 1e-4, 1e-5];
const ALPHA: f64 = 1e-9;

/// Err = the library panicked while producing or decoding the symbols of this set
fn trial(rng: &mut Rng, enc: &SourceBlockEncoder, src: &[EncodingPacket], cfg: &Oti, K: usize, h: usize, mix: Mix, data: &[u8]) -> (Result<bool, String>, HashSet<u32>) {
    let mix = if mix == Mix::Pooled { [Mix::AllRepair, Mix::RandomSurvivors, Mix::FewLost][rng.below(3) as usize] } else { mix };
    let incremental = mix == Mix::Incremental;
    let kept = match mix {
        Mix::AllRepair | Mix::Incremental | Mix::TopEsis | Mix::Dense => 0,
        Mix::RandomSurvivors => rng.below(K as u64) as usize,
        Mix::FewLost => K.saturating_sub(rng.range(1, 3) as usize),
        Mix::Pooled => unreachable!(),
    };
    let mut set: HashSet<u32> = HashSet::with_capacity(K + h);
    let mut pk: Vec<EncodingPacket> = Vec::with_capacity(K + h);
    if kept > 0 {
        // random kept-subset of the source symbols (partial Fisher-Yates over indices)
        let mut idx: Vec<u32> = (0..K as u32).collect();
        for i in 0..kept {
            let j = i + rng.below((K - i) as u64) as usize;
            idx.swap(i, j);
            set.insert(idx[i]);
            pk.push(src[idx[i] as usize].clone());
        }
    }
    let mut esis: Vec<u32> = vec![];
    while set.len() < K + h {
        // TopEsis: the last 2K+64 encoding symbol ids of the 24-bit range (always containing 2^24-1 .. 2^24-3)
        let e = if mix == Mix::TopEsis {
            if esis.len() < 3 { (1 << 24) - 1 - esis.len() as u32 } else { (1 << 24) - 1 - rng.below(2 * K as u64 + 64) as u32 }
        } else {
            rng.range(K as u64, (1 << 24) - 1) as u32
        };
        if set.insert(e) {
            esis.push(e);
        }
    }
    let r = guarded(|| {
        for &e in &esis {
            pk.push(enc.repair_packets(e - K as u32, 1).pop().unwrap());
        }
        let mut d = SourceBlockDecoder::new(0, cfg, K as u64);
        if mix == Mix::Dense {
            d.verif_set_sparse_threshold(u32::MAX);
        }
        if incremental {
            let mut last = None;
            for p in pk {
                if last.is_none() {
                    last = d.decode(std::iter::once(p));
                }
            }
            return last.map(|v| v == data);
        }
        d.decode(pk).map(|v| v == data)
    });
    // an answer with wrong bytes is reported like a panic: it is not a decoding *failure*
    let r = match r {
        Ok(Some(false)) => Err("the decoder returned a block that differs from the source block".to_string()),
        Ok(x) => Ok(x.is_some()),
        Err(m) => Err(m),
    };
    (r, set)
}

pub fn run(ctx: &Ctx) -> i32 {
    let gf = Gf::new();
    if let Some(p) = &ctx.args.replay {
        let j = parse_json(&std::fs::read_to_string(p).expect("replay file")).expect("json");
        let c = j.get("case").unwrap();
        ctx.eval(1);
        ctx.nontrivial(1);
        ctx.nontrivial(2);
        if c.get("esis").is_some() {
            let K = c.u("K") as usize;
            let set: HashSet<u32> = c.us("esis").iter().map(|&e| e as u32).collect();
            let data: Vec<u8> = (0..K).map(|i| (i * 37 + 11) as u8).collect();
            let cfg = Oti::new(K as u64, 1, 1, 1, 1);
            let got = guarded(|| {
                let enc = SourceBlockEncoder::new(0, &cfg, &data);
                let src = enc.source_packets();
                let pk: Vec<EncodingPacket> = set.iter().map(|&e| if (e as usize) < K { src[e as usize].clone() } else { enc.repair_packets(e - K as u32, 1).pop().unwrap() }).collect();
                SourceBlockDecoder::new(0, &cfg, K as u64).decode(pk).is_some()
            });
            let got = match got {
                Ok(b) => b,
                Err(m) => {
                    ctx.violation(format!("C03 panic K={K} replay"), format!("K={K}: producing / decoding the recorded set panicked: {}", short(&m, 160)), c.clone());
                    return ctx.finish("replay of one recorded received set", &[], vec![]);
                }
            };
            let (_, fr, l) = oracle(&gf, K, &set);
            if !got && fr == l {
                ctx.violation(format!("C03 lost-decode K={K} replay"), format!("K={K}: recorded set has full rank but decoding fails"), c.clone());
            }
            return ctx.finish("replay of one recorded received set", &[], vec![]);
        }
        println!("note: a rate violation is a statement about a whole stratum; re-run ./check C03 with the same VERIF_SEED to reproduce it");
        return ctx.finish("rate violations are reproduced by re-running the check with the same seed", &[], vec![]);
    }
    let quick = ctx.args.quick();
    let scale = ctx.args.ex_u64("scale_pct", 100);
    let mut strata: Vec<Stratum> = vec![];
    let add = |v: &mut Vec<Stratum>, K: usize, h: usize, mix: Mix, n: u64| v.push(Stratum { K, h, mix, n: (n * scale / 100).max(if mix == Mix::Dense { 100 } else { 1000 }), fails: AtomicU64::new(0), done: AtomicU64::new(0), lost_decodes: AtomicU64::new(0) });
    // h = 0
    for &K in &[1usize, 2, 5, 10, 12, 26, 42, 50, 55] {
        for mix in [Mix::AllRepair, Mix::RandomSurvivors, Mix::FewLost] {
            add(&mut strata, K, 0, mix, if quick { 200_000 } else { 2_000_000 });
        }
    }
    for &(K, nq, nt) in &[(101usize, 60_000u64, 600_000u64), (200, 60_000, 400_000), (477, 20_000, 200_000), (1000, 15_000, 120_000)] {
        add(&mut strata, K, 0, Mix::Pooled, if quick { nq } else { nt });
    }
    if !quick {
        add(&mut strata, 5000, 0, Mix::Pooled, 20_000);
        add(&mut strata, 20000, 0, Mix::Pooled, 6_000);
    }
    // h = 1, 2
    for &K in &[10usize, 50] {
        add(&mut strata, K, 1, Mix::AllRepair, if quick { if K == 10 { 2_000_000 } else { 1_000_000 } } else if K == 10 { 8_000_000 } else { 4_000_000 });
        add(&mut strata, K, 2, Mix::AllRepair, if quick { if K == 10 { 2_000_000 } else { 1_000_000 } } else if K == 10 { 50_000_000 } else { 8_000_000 });
    }
    // the same bound must hold when the K+h symbols arrive one per call (earlier failed attempts
    // must not spoil the attempt at K+h)
    add(&mut strata, 10, 1, Mix::Incremental, if quick { 1_000_000 } else { 4_000_000 });
    add(&mut strata, 26, 1, Mix::Incremental, if quick { 500_000 } else { 2_000_000 });
    add(&mut strata, 12, 2, Mix::Incremental, if quick { 500_000 } else { 2_000_000 });
    if !quick {
        add(&mut strata, 10, 0, Mix::Pooled, 4_000_000);
        add(&mut strata, 10, 1, Mix::Pooled, 8_000_000);
        add(&mut strata, 200, 1, Mix::AllRepair, 1_000_000);
    }
    // overheads beyond 2: every further symbol must keep lowering the failure odds, in particular across
    // h = H (from K+H symbols on a batch decode first tries the GF(2)-only solve and must fall back to the
    // full solve when that fails). Decided on the pooled count (see below); H = 10 for all these K.
    for &K in &[10usize, 26, 50, 101] {
        for &h in &[3usize, 6, 9, 10, 11, 12, 14, 20] {
            add(&mut strata, K, h, Mix::AllRepair, if quick { 12_000 } else { 150_000 });
        }
    }
    // mid-size blocks on the dense back-end (more than 64 inactivated columns: several words per packed row)
    for &K in &[700usize, 1000, 1300] {
        add(&mut strata, K, 2, Mix::Dense, if quick { 1000 } else { 10_000 });
    }
    // the top of the 24-bit ESI range on blocks with padding symbols (K < K'): ISIs beyond 2^24 - 1
    for &K in &[1usize, 5, 11, 13, 27, 50, 101] {
        add(&mut strata, K, 0, Mix::TopEsis, if quick { 20_000 } else { 200_000 });
        add(&mut strata, K, 2, Mix::TopEsis, if quick { 20_000 } else { 200_000 });
    }
    // work items: (stratum, chunk)
    let chunk = 5000u64;
    let mut items: Vec<(usize, u64)> = vec![];
    for (si, s) in strata.iter().enumerate() {
        let per = if s.mix == Mix::Dense { 50 } else if s.K >= 5000 { 500 } else if s.K >= 400 { 1000 } else { chunk };
        for c in 0..s.n.div_ceil(per) {
            items.push((si, c));
        }
    }
    // expensive items first
    items.sort_by_key(|&(si, _)| std::cmp::Reverse(strata[si].K));
    let distinct_sets = AtomicU64::new(0);
    par_for(items.len(), |ii| {
        let (si, c) = items[ii];
        let s = &strata[si];
        let per = if s.mix == Mix::Dense { 50 } else if s.K >= 5000 { 500 } else if s.K >= 400 { 1000 } else { chunk };
        let todo = per.min(s.n - c * per);
        let mut rng = Rng::derive(ctx.seed(), 0x0303 + si as u64, c);
        let K = s.K;
        let data: Vec<u8> = (0..K).map(|i| (i * 37 + 11) as u8).collect();
        let cfg = Oti::new(K as u64, 1, 1, 1, 1);
        let enc = SourceBlockEncoder::new(0, &cfg, &data);
        let src = enc.source_packets();
        let mut f = 0;
        let mut hs: HashSet<u64> = HashSet::new();
        for _ in 0..todo {
            let (ok, set) = trial(&mut rng, &enc, &src, &cfg, K, s.h, s.mix, &data);
            let ok = match ok {
                Ok(b) => b,
                Err(m) => {
                    let mut v: Vec<u32> = set.iter().copied().collect();
                    v.sort_unstable();
                    ctx.violation(
                        format!("C03 panic K={K} h={} {}", s.h, short(&m, 60)),
                        format!("K={K}, {} distinct symbols ({}): producing / decoding this set did not end in None or the source block: {}", K + s.h, mix_name(s.mix), short(&m, 160)),
                        J::obj(vec![("K", J::i(K)), ("esis", J::A(v.iter().map(|&e| J::i(e)).collect()))]),
                    );
                    false
                }
            };
            // distinctness of the random subsets is measured on a 1/64 sample of the trials
            if rng.below(64) == 0 {
                let mut h = H64::new();
                let mut v: Vec<u32> = set.iter().copied().collect();
                v.sort_unstable();
                h.u64(si as u64);
                for e in v {
                    h.u64(e as u64);
                }
                hs.insert(h.get());
            }
            if !ok {
                f += 1;
                // every failure goes to the rank oracle: is the set really undecodable?
                if K <= 2000 {
                    let (_, fr, l) = oracle(&gf, K, &set);
                    if fr == l {
                        s.lost_decodes.fetch_add(1, Relaxed);
                        let mut v: Vec<u32> = set.iter().copied().collect();
                        v.sort_unstable();
                        ctx.violation(
                            format!("C03 lost-decode K={K} h={} set={:016x}", s.h, {
                                let mut hh = H64::new();
                                for e in &v {
                                    hh.u64(*e as u64);
                                }
                                hh.get()
                            }),
                            format!("K={K}, {} symbols: decoding failed although the received set has full rank (the failure is the solver's, not the code's)", K + s.h),
                            J::obj(vec![("K", J::i(K)), ("esis", J::A(v.iter().map(|&e| J::i(e)).collect()))]),
                        );
                    }
                }
            }
        }
        s.fails.fetch_add(f, Relaxed);
        s.done.fetch_add(todo, Relaxed);
        distinct_sets.fetch_add(hs.len() as u64, Relaxed);
        ctx.nontrivial_many(hs);
    });
    // ---- decisions ----
    let mut table = vec![];
    let mut total = 0u64;
    let (mut pooled_n, mut pooled_k) = (0u64, 0u64);
    for s in &strata {
        let (n, k) = (s.done.load(Relaxed), s.fails.load(Relaxed));
        total += n;
        if s.h >= 3 || s.mix == Mix::TopEsis || s.mix == Mix::Dense {
            // decided on the pooled count below (h >= 3) / by the panic and rank oracles only (TopEsis:
            // a fixed corner of the id space, not a draw from the advertised distribution)
            if s.h >= 3 {
                pooled_n += n;
                pooled_k += k;
            }
            table.push(J::obj(vec![
                ("K", J::i(s.K)),
                ("overhead_h", J::i(s.h)),
                ("mix", J::s(mix_name(s.mix))),
                ("trials", J::i(n)),
                ("failures", J::i(k)),
                ("failures_with_full_rank_(solver_lost_a_decode)", J::i(s.lost_decodes.load(Relaxed))),
                ("verdict", J::s(if s.h >= 3 { "pooled with the other h >= 3 strata" } else { "reported; decided by the panic and rank oracles" })),
            ]));
            continue;
        }
        let bound = BOUNDS[s.h];
        let phat = k as f64 / n as f64;
        let lo = cp_lower(n, k, ALPHA);
        let hi = cp_upper(n, k, ALPHA);
        let verdict = if lo > bound {
            ctx.violation(
                format!("C03 rate K={} h={} mix={:?}", s.K, s.h, s.mix),
                format!("K={}, exactly K+{} distinct symbols, {}: {k} failures in {n} trials (rate {:.3e}); even the 1-1e-9 Clopper-Pearson lower bound {:.3e} exceeds the advertised {:.0e}", s.K, s.h, mix_name(s.mix), phat, lo, bound),
                J::obj(vec![("K", J::i(s.K)), ("h", J::i(s.h)), ("mix", J::s(mix_name(s.mix))), ("n", J::i(n)), ("failures", J::i(k))]),
            );
            "violated"
        } else if phat <= bound {
            "held"
        } else {
            ctx.inconclusive(format!("K={} h={} {}: rate {:.3e} above the bound {:.0e} but the lower confidence bound {:.3e} is not", s.K, s.h, mix_name(s.mix), phat, bound, lo));
            "inconclusive"
        };
        table.push(J::obj(vec![
            ("K", J::i(s.K)),
            ("overhead_h", J::i(s.h)),
            ("mix", J::s(mix_name(s.mix))),
            ("trials", J::i(n)),
            ("failures", J::i(k)),
            ("rate", J::F(phat)),
            ("cp_lower_1e-9", J::F(lo)),
            ("cp_upper_1e-9", J::F(hi)),
            ("advertised_bound", J::F(bound)),
            ("failures_with_full_rank_(solver_lost_a_decode)", J::i(s.lost_decodes.load(Relaxed))),
            ("verdict", J::s(verdict)),
        ]));
    }
    // pooled decision for overheads >= 3: the rate must not exceed the bound advertised for h = 2
    {
        let (n, k) = (pooled_n, pooled_k);
        let bound = BOUNDS[2];
        let phat = k as f64 / n.max(1) as f64;
        let lo = cp_lower(n.max(1), k, ALPHA);
        if lo > bound {
            ctx.violation(
                "C03 rate h>=3 pooled".to_string(),
                format!("overheads 3..20 pooled over K in {{10,26,50,101}}: {k} failures in {n} trials (rate {:.3e}); even the 1-1e-9 lower bound {:.3e} exceeds the {:.0e} advertised for two extra symbols, so more symbols made decoding less likely", phat, lo, bound),
                J::obj(vec![("n", J::i(n)), ("failures", J::i(k))]),
            );
        } else if phat > bound {
            ctx.inconclusive(format!("h>=3 pooled: rate {:.3e} above {:.0e} but the lower confidence bound {:.3e} is not", phat, bound, lo));
        }
        ctx.cov("overhead_3_to_20_pooled", J::obj(vec![("trials", J::i(n)), ("failures", J::i(k)), ("bound", J::F(bound))]));
    }
    // ratio between consecutive overheads (reported; flagged only if certainly far below 256)
    let mut ratios = vec![];
    for &K in &[10usize, 50] {
        let get = |h: usize| {
            let (mut n, mut k) = (0u64, 0u64);
            for s in strata.iter().filter(|s| s.K == K && s.h == h && s.mix == Mix::AllRepair) {
                n += s.done.load(Relaxed);
                k += s.fails.load(Relaxed);
            }
            (n, k)
        };
        let (n0, k0) = get(0);
        let (n1, k1) = get(1);
        let (n2, k2) = get(2);
        let r01_hi = cp_upper(n0, k0, ALPHA / 2.0) / cp_lower(n1, k1, ALPHA / 2.0).max(1e-300);
        let r01 = (k0 as f64 / n0 as f64) / (k1 as f64 / n1 as f64);
        ratios.push(J::obj(vec![("K", J::i(K)), ("p0_over_p1_point", J::F(r01)), ("p0_over_p1_upper_bound", J::F(r01_hi)), ("p1_failures", J::i(k1)), ("p2_failures", J::i(k2)), ("p2_trials", J::i(n2))]));
        if k1 > 0 && r01_hi < 64.0 {
            ctx.violation(
                format!("C03 ratio K={K}"),
                format!("K={K}: failure rate drops by at most {:.1}x (upper confidence bound) from 0 to 1 extra symbol; advertised ~256x", r01_hi),
                J::obj(vec![("K", J::i(K)), ("n0", J::i(n0)), ("k0", J::i(k0)), ("n1", J::i(n1)), ("k1", J::i(k1))]),
            );
        }
    }
    ctx.eval(total as usize);
    ctx.cov("strata", J::A(table));
    ctx.cov("ratio_between_overheads", J::A(ratios));
    ctx.cov("distinct_subsets_in_the_1/64_sample", J::i(distinct_sets.load(Relaxed)));
    ctx.sample(|| J::obj(vec![("K", J::i(10)), ("h", J::i(0)), ("trial", J::s("10 distinct ESIs uniform in [10, 2^24) -> SourceBlockDecoder::decode(batch) -> Some/None; None sets go to the rank oracle"))]));
    ctx.floor("trials", total, 100_000);
    ctx.finish(
        "per stratum (K, overhead h, mix) n independent trials: draw a uniformly random set of exactly K+h distinct encoding symbols of the real encoder (mixes: all repair with ESIs uniform over [K,2^24); uniformly random number of surviving source symbols; 1-3 lost source symbols; and all-repair sets delivered one packet per call), decode (in one batch unless stated), count None at exactly K+h symbols. Decision per stratum: violated iff the exact one-sided Clopper-Pearson lower bound at confidence 1-1e-9 exceeds the advertised bound (1e-2, 1e-4, 1e-5 for h=0,1,2); held iff the observed rate is at most the bound; otherwise inconclusive. Every None set is passed to the C02 rank oracle; a None on a full-rank set is reported as a lost decode. distinct_nontrivial = distinct subsets among a 1/64 sample of the trials (every trial draws at least one repair symbol except FewLost/RandomSurvivors draws, which always lose >= 1 source symbol)",
        &["a statement about a distribution: the monitor gives exact binomial confidence bounds, not certainty", "trial sets are drawn by the harness PRNG from VERIF_SEED"],
        vec![],
    )
}
