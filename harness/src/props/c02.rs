//! C02 — a block decodes exactly when the received symbols determine it.
#![allow(non_snake_case)]
use super::util::*;
use crate::common::*;
use crate::golden::TABLE2;
use crate::refmodel::{self as rm, Gf};
use raptorq::{ObjectTransmissionInformation as Oti, SourceBlockDecoder, SourceBlockEncoder};
use std::collections::HashSet;
use std::sync::atomic::{AtomicU64, Ordering::Relaxed};

#[derive(Default)]
pub struct Stats {
    pub decisions: AtomicU64,
    pub undecodable_ge_k: AtomicU64,
    pub decodable_at_exactly_k: AtomicU64,
    pub fallback_cases: AtomicU64,
    pub gf2_only_sufficient: AtomicU64,
    pub batch_cases: AtomicU64,
    pub below_k: AtomicU64,
    pub calls_with_duplicates: AtomicU64,
    pub flood_undecodable: AtomicU64,
    /// arrival orders in which two or more consecutive prefixes of >= K symbols were undecodable
    pub stubborn_orders: AtomicU64,
}

/// (binary rank, full rank, L) of the constraint matrix of the received set
pub fn oracle(gf: &Gf, K: usize, esis: &HashSet<u32>) -> (usize, usize, usize) {
    let p = rm::params(K);
    let mut isis: Vec<u64> = vec![];
    for &e in esis {
        if (e as usize) < K {
            isis.push(e as u64);
        } else {
            isis.push(e as u64 + (p.Kp - K) as u64);
        }
    }
    for i in K..p.Kp {
        isis.push(i as u64);
    }
    isis.sort_unstable();
    let (b, f) = rm::constraint_rank(&p, gf, &isis);
    (b, f, p.L)
}

fn p_l_of(K: usize) -> usize {
    rm::params(K).L
}

pub fn decodable(gf: &Gf, K: usize, esis: &HashSet<u32>) -> bool {
    if esis.len() < K {
        return false;
    }
    if (0..K as u32).all(|e| esis.contains(&e)) {
        return true;
    }
    let (_, f, l) = oracle(gf, K, esis);
    f == l
}

pub struct Case {
    pub K: usize,
    pub T: usize,
    pub threshold: u32,
    pub data_seed: u64,
    /// arrival sequence of distinct ESIs; `batch_first` symbols are delivered in one call
    pub arrivals: Vec<u32>,
    pub batch_first: usize,
}

fn rand_repair(rng: &mut Rng, K: usize, used: &HashSet<u32>) -> u32 {
    loop {
        let e = match rng.below(8) {
            0 | 1 => K as u32 + rng.below(3 * K as u64 + 20) as u32,
            2 => (1 << 24) - 1 - rng.below(64) as u32,
            _ => rng.range(K as u64, (1 << 24) - 1) as u32,
        };
        if !used.contains(&e) {
            return e;
        }
    }
}

pub fn pick_k(rng: &mut Rng, family: u64, kmax: usize) -> usize {
    match family {
        0 => rng.range(1, 60) as usize,
        1 => {
            // table sizes and their neighbours
            let rows: Vec<usize> = TABLE2.iter().map(|r| r.0 as usize).filter(|&k| k <= kmax).collect();
            let kp = *rng.pick(&rows);
            (kp as i64 + rng.range(0, 2) as i64 - 1).clamp(1, 56403) as usize
        }
        _ => rng.range(1, kmax as u64) as usize,
    }
}

/// Hostile family: the receiver is flooded with more than L symbols that are linearly dependent
/// (repair ESIs whose LT rows coincide, found with the reference model), and only afterwards gets
/// the symbols that complete the rank. The rank oracle decides every prefix as usual.
pub fn gen_flood_case(seed: u64, idx: u64) -> Case {
    let mut rng = Rng::derive(seed, 0x0212, idx);
    if rng.chance(1, 3) {
        return gen_stubborn_case(seed, idx);
    }
    let K = *rng.pick(&[1usize, 3, 7, 9, 10, 11, 12, 18, 20, 26]);
    let p = rm::params(K);
    // group repair ESIs by their LT row (as a set of intermediate-symbol indices)
    let scan = 60_000u32;
    let base = if rng.chance(1, 2) { K as u32 } else { rng.range(K as u64, (1 << 24) - scan as u64 - 1) as u32 };
    let mut classes: std::collections::HashMap<Vec<usize>, Vec<u32>> = std::collections::HashMap::new();
    for e in base..base + scan {
        let row = rm::enc_indices_mod2(&p, e as u64 + (p.Kp - K) as u64);
        classes.entry(row).or_default().push(e);
    }
    let mut groups: Vec<Vec<u32>> = classes.into_values().filter(|g| g.len() >= 4).collect();
    groups.sort();
    rng.shuffle(&mut groups);
    // few classes => rank far below L however many symbols arrive
    let nclasses = rng.range(1, (K as u64).min(6)) as usize;
    let mut pool: Vec<u32> = groups.into_iter().take(nclasses).flatten().collect();
    rng.shuffle(&mut pool);
    let flood = (p.L + rng.below(12) as usize).min(pool.len());
    let mut arrivals: Vec<u32> = pool[..flood].to_vec();
    let mut used: HashSet<u32> = arrivals.iter().copied().collect();
    // a few source symbols in between, then ordinary repair symbols until decodable (and beyond)
    let kept = rng.below(K as u64) as usize;
    for e in 0..kept as u32 {
        if used.insert(e) {
            arrivals.push(e);
        }
    }
    for _ in 0..K + 12 {
        let e = rand_repair(&mut rng, K, &used);
        used.insert(e);
        arrivals.push(e);
    }
    let batch_first = if rng.chance(1, 2) { flood.max(1) } else { 1 };
    Case { K, T: rng.range(1, 3) as usize, threshold: *rng.pick(&[0u32, 250, u32::MAX]), data_seed: rng.next(), arrivals, batch_first }
}

/// Hostile family "stubborn": an arrival order whose prefixes of K, K+1, ... K+m distinct symbols (m = 1..4)
/// are ALL rank deficient (each found by rejection sampling with the reference rank oracle; a random
/// K-subset is deficient about once in 170 tries, a further symbol keeps it deficient about once in 256),
/// followed by ordinary repair symbols. A decoder whose attempt schedule depends on earlier failures
/// (back-off, retry gating) answers late on exactly these orders.
pub fn gen_stubborn_case(seed: u64, idx: u64) -> Case {
    static GF: std::sync::OnceLock<Gf> = std::sync::OnceLock::new();
    let gf = GF.get_or_init(Gf::new);
    let mut rng = Rng::derive(seed, 0x0213, idx);
    let K = *rng.pick(&[2usize, 3, 5, 7, 9, 10, 11, 12, 16, 20, 26, 30]);
    let mut arrivals: Vec<u32> = vec![];
    let mut used: HashSet<u32> = HashSet::new();
    for _ in 0..3000 {
        arrivals.clear();
        used.clear();
        let kept = rng.below(K as u64) as usize;
        let mut src: Vec<u32> = (0..K as u32).collect();
        rng.shuffle(&mut src);
        for &e in &src[..kept] {
            used.insert(e);
            arrivals.push(e);
        }
        while arrivals.len() < K {
            let e = rand_repair(&mut rng, K, &used);
            used.insert(e);
            arrivals.push(e);
        }
        if !decodable(gf, K, &used) {
            break;
        }
    }
    rng.shuffle(&mut arrivals);
    let m = rng.range(1, 4);
    for _ in 0..m {
        for _ in 0..5000 {
            let e = rand_repair(&mut rng, K, &used);
            used.insert(e);
            if !decodable(gf, K, &used) {
                arrivals.push(e);
                break;
            }
            used.remove(&e);
        }
    }
    for _ in 0..12 {
        let e = rand_repair(&mut rng, K, &used);
        used.insert(e);
        arrivals.push(e);
    }
    Case { K, T: rng.range(1, 3) as usize, threshold: *rng.pick(&[0u32, 250, u32::MAX]), data_seed: rng.next(), arrivals, batch_first: 1 }
}

pub const SWEEP_BASE: u64 = 1 << 40;

/// Table-2 sweep: case j = 2 * row (+1): K = K' of that row, or K' - 1 (one padding symbol; the previous
/// K' + 1 when j is odd and the row index is a multiple of 3): two or three source symbols lost, repair
/// symbols up to exactly K, then extras one by one. Sparse thresholds only above 1000 symbols.
fn gen_sweep_case(seed: u64, j: u64) -> Case {
    let mut rng = Rng::derive(seed, 0x0222, j);
    let row = (j / 2) as usize % TABLE2.len();
    let kp = TABLE2[row].0 as usize;
    let K = if j % 2 == 0 {
        kp
    } else if row % 3 == 0 && row > 0 {
        TABLE2[row - 1].0 as usize + 1
    } else {
        kp - 1
    };
    let lost = rng.range(1, 3.min(K as u64)) as usize;
    let mut src: Vec<u32> = (0..K as u32).collect();
    rng.shuffle(&mut src);
    let mut arrivals: Vec<u32> = src[..K - lost].to_vec();
    let mut used: HashSet<u32> = arrivals.iter().copied().collect();
    while arrivals.len() < K {
        let e = rand_repair(&mut rng, K, &used);
        used.insert(e);
        arrivals.push(e);
    }
    rng.shuffle(&mut arrivals);
    for _ in 0..4 {
        let e = rand_repair(&mut rng, K, &used);
        used.insert(e);
        arrivals.push(e);
    }
    let threshold = if K > 1000 { *rng.pick(&[0u32, 250]) } else { *rng.pick(&[0u32, 250, u32::MAX]) };
    // deliver the first K - 1 symbols in one call: nothing to decide below K
    Case { K, T: rng.range(1, 3) as usize, threshold, data_seed: rng.next(), arrivals, batch_first: K - 1 }
}

pub const HIDEG_BASE: u64 = 1 << 41;
pub const OVER_BASE: u64 = 1 << 42;
pub const ROWFLOOD_BASE: u64 = 1 << 43;

/// Row flood: more than 2^16 distinct symbols of a small block handed over in ONE call (a receiver that
/// buffered a whole carousel): some source symbols plus about 65 540 - 65 840 consecutive repair ESIs. The set
/// is decodable by a wide margin; the row bookkeeping of the solver must cope with more than 65 535 rows.
fn gen_rowflood_case(seed: u64, j: u64) -> Case {
    let mut rng = Rng::derive(seed, 0x0214, j);
    let K = *rng.pick(&[10usize, 16, 26, 40]);
    let kept = rng.below(K as u64) as usize;
    let mut src: Vec<u32> = (0..K as u32).collect();
    rng.shuffle(&mut src);
    let mut arrivals: Vec<u32> = src[..kept].to_vec();
    let total = 65_540 + rng.below(300) as u32;
    let start = if rng.chance(1, 2) { K as u32 } else { rng.range(K as u64, (1 << 24) - total as u64 - 1) as u32 };
    arrivals.extend(start..start + total);
    let n = arrivals.len();
    Case { K, T: 1, threshold: *rng.pick(&[0u32, 250, u32::MAX]), data_seed: rng.next(), arrivals, batch_first: n }
}

/// Over-provisioned family: most source symbols plus (K'-K+1) + 2H + 1 ... repair symbols handed over in
/// one call, so that the solver's second phase works on many more rows than it needs (more than H surplus
/// rows; the rank-deficient prefixes among them are where a pivot has to come from a late row).
fn gen_over_case(seed: u64, j: u64) -> Case {
    let mut rng = Rng::derive(seed, 0x0242, j);
    let K = match rng.below(3) {
        0 => *rng.pick(&[10usize, 12, 18, 20, 26]),
        1 => rng.range(5, 60) as usize,
        _ => rng.range(60, 300) as usize,
    };
    let p = rm::params(K);
    let lost = rng.range(1, 3.min(K as u64)) as usize;
    let mut src: Vec<u32> = (0..K as u32).collect();
    rng.shuffle(&mut src);
    let mut arrivals: Vec<u32> = src[..K - lost].to_vec();
    let mut used: HashSet<u32> = arrivals.iter().copied().collect();
    let nrep = (p.Kp - K + 1) + 2 * p.H + 1 + rng.below(24) as usize;
    // consecutive ids from a random start, or scattered ones
    let start = rng.range(K as u64, (1 << 24) - 1 - 4 * nrep as u64) as u32;
    for i in 0..nrep as u32 {
        let e = if j % 2 == 0 { start + i } else { rand_repair(&mut rng, K, &used) };
        if used.insert(e) {
            arrivals.push(e);
        }
    }
    if rng.chance(1, 2) {
        rng.shuffle(&mut arrivals);
    }
    let n = arrivals.len();
    Case { K, T: rng.range(1, 4) as usize, threshold: *rng.pick(&[0u32, 250, u32::MAX]), data_seed: rng.next(), arrivals, batch_first: n }
}

/// High-degree family: a small block received through repair symbols whose LT degree (reference Deg[])
/// is at least 4 (one of them exactly 4 in half of the cases), so that the solver's first phase has to
/// pick rows with r >= 4 ones in V - something uniformly drawn sets practically never make it do.
fn gen_hideg_case(seed: u64, j: u64) -> Case {
    let mut rng = Rng::derive(seed, 0x0232, j);
    let kp = *rng.pick(&[10usize, 10, 10, 12, 18, 20, 26, 30, 32, 36, 42]);
    let K = if rng.chance(1, 4) && kp > 10 { kp - 1 } else { kp };
    let p = rm::params(K);
    let deg = |e: u32| rm::tuple(&p, e as u64 + (p.Kp - K) as u64).0;
    let mut used: HashSet<u32> = HashSet::new();
    let mut arrivals: Vec<u32> = vec![];
    let window = if rng.chance(1, 2) { 4000 } else { (1 << 24) - 1 - K as u64 };
    let want_low = rng.chance(1, 2);
    let pick = |rng: &mut Rng, lo: u64, hi: u64, used: &mut HashSet<u32>| loop {
        let e = K as u32 + rng.below(window) as u32;
        let d = deg(e);
        if d >= lo && d <= hi && used.insert(e) {
            return e;
        }
    };
    if want_low {
        arrivals.push(pick(&mut rng, 4, 4, &mut used));
    }
    while arrivals.len() < K {
        arrivals.push(pick(&mut rng, if want_low { 5 } else { 4 }, 30, &mut used));
    }
    rng.shuffle(&mut arrivals);
    for _ in 0..4 {
        arrivals.push(pick(&mut rng, 3, 30, &mut used));
    }
    Case { K, T: rng.range(1, 3) as usize, threshold: *rng.pick(&[0u32, 250, u32::MAX]), data_seed: rng.next(), arrivals, batch_first: K - 1 }
}

pub fn gen_case(seed: u64, idx: u64, kmax: usize) -> Case {
    if idx >= ROWFLOOD_BASE {
        return gen_rowflood_case(seed, idx - ROWFLOOD_BASE);
    }
    if idx >= OVER_BASE {
        return gen_over_case(seed, idx - OVER_BASE);
    }
    if idx >= HIDEG_BASE {
        return gen_hideg_case(seed, idx - HIDEG_BASE);
    }
    if idx >= SWEEP_BASE {
        return gen_sweep_case(seed, idx - SWEEP_BASE);
    }
    if idx % 40 == 39 {
        return gen_flood_case(seed, idx);
    }
    let mut rng = Rng::derive(seed, 0x0202, idx);
    let family = match idx % 8 {
        0 | 1 | 2 => 0,
        3 | 4 | 5 => 1,
        _ => 2,
    };
    let kmax = if idx % 97 == 0 { kmax } else { kmax.min(1200) };
    let K = pick_k(&mut rng, family, kmax);
    let p = rm::params(K);
    let T = rng.range(1, 4) as usize;
    let threshold = *rng.pick(&[0u32, 250, u32::MAX]);
    let mut used: HashSet<u32> = HashSet::new();
    let batch = idx % 3 == 2;
    // how many source symbols survive
    let kept = match rng.below(6) {
        0 => 0,
        1 => K - 1,
        2 => K.saturating_sub(2),
        3 => K.saturating_sub(1 + rng.below(3.min(K as u64)) as usize),
        _ => rng.below(K as u64) as usize,
    };
    let mut src: Vec<u32> = (0..K as u32).collect();
    rng.shuffle(&mut src);
    let mut arrivals: Vec<u32> = src[..kept].to_vec();
    for &e in &arrivals {
        used.insert(e);
    }
    let target = if batch { K + p.H + rng.below(4) as usize } else { K };
    while arrivals.len() < target {
        let e = rand_repair(&mut rng, K, &used);
        used.insert(e);
        arrivals.push(e);
    }
    rng.shuffle(&mut arrivals);
    // extra symbols one by one (the monitor stops at the first decodable prefix)
    for _ in 0..8 {
        let e = if rng.chance(1, 6) && kept < K { src[kept + rng.below((K - kept) as u64) as usize] } else { rand_repair(&mut rng, K, &used) };
        if used.insert(e) {
            arrivals.push(e);
        }
    }
    Case { K, T, threshold, data_seed: rng.next(), arrivals, batch_first: if batch { target } else { 1 } }
}

pub fn case_json(seed: u64, idx: u64, kmax: usize, c: &Case) -> J {
    J::obj(vec![
        ("seed", J::i(seed)),
        ("idx", J::i(idx)),
        ("kmax", J::i(kmax)),
        ("K", J::i(c.K)),
        ("T", J::i(c.T)),
        ("sparse_threshold", J::i(c.threshold)),
        ("first_batch", J::i(c.batch_first)),
        ("arrival_esis", J::A(c.arrivals.iter().take(80).map(|&e| J::i(e)).collect())),
        ("arrivals_total", J::i(c.arrivals.len())),
    ])
}

pub fn run_case(ctx: &Ctx, gf: &Gf, c: &Case, replay: J, st: &Stats) {
    let K = c.K;
    let mut rng = Rng::new(c.data_seed);
    let data = rng.bytes(K * c.T);
    let cfg = Oti::new((K * c.T) as u64, c.T as u16, 1, 1, 1);
    let enc = match guarded(|| SourceBlockEncoder::new(0, &cfg, &data)) {
        Ok(e) => e,
        Err(m) => {
            ctx.violation(format!("C02 encoder-panic K={K}"), format!("building an encoder for K={K} panicked: {}", short(&m, 100)), replay);
            return;
        }
    };
    let src = enc.source_packets();
    let mk = |e: u32| if (e as usize) < K { src[e as usize].clone() } else { enc.repair_packets(e - K as u32, 1).pop().unwrap() };
    let mut dec = SourceBlockDecoder::new(0, &cfg, (K * c.T) as u64);
    dec.verif_set_sparse_threshold(c.threshold);
    // second observer: the object-level decoder of the same one-block object, fed packet by packet
    // through a random mix of its two entry points; it must answer exactly when the block decoder does
    let mut obj = raptorq::Decoder::new(cfg);
    obj.verif_set_sparse_threshold(c.threshold);
    let mut obj_rng = Rng::new(c.data_seed ^ 0x0b1ec7);
    let mut have: HashSet<u32> = HashSet::new();
    let mut i = 0;
    let sigbase = {
        let mut h = H64::new();
        for &e in &c.arrivals {
            h.u64(e as u64);
        }
        format!("K={K} T={} thr={} batch={} arr={:016x}", c.T, c.threshold, c.batch_first, h.get())
    };
    let mut undecodable_run = 0u32;
    while i < c.arrivals.len() {
        let n = if i == 0 { c.batch_first.max(1).min(c.arrivals.len()) } else { 1 };
        let chunk: Vec<u32> = c.arrivals[i..(i + n).min(c.arrivals.len())].to_vec();
        i += chunk.len();
        for &e in &chunk {
            have.insert(e);
        }
        let mut pk: Vec<_> = chunk.iter().map(|&e| mk(e)).collect();
        // one call in three also carries re-deliveries of symbols already received (in this call
        // or earlier), placed last: the answer must still reflect the distinct set
        if rng.chance(1, 3) {
            for _ in 0..rng.range(1, 2) {
                pk.push(mk(*rng.pick(&c.arrivals[..i])));
            }
            st.calls_with_duplicates.fetch_add(1, Relaxed);
        }
        let obj_ret = guarded(|| {
            let mut last = None;
            for p in pk.iter().cloned() {
                last = if obj_rng.chance(1, 2) {
                    obj.decode(p)
                } else {
                    obj.add_new_packet(p);
                    if obj_rng.chance(1, 2) { obj.get_result() } else { obj.decode(pk[0].clone()) }
                };
            }
            last
        });
        let ret = guarded(|| dec.decode(pk));
        if let (Ok(o), Ok(r)) = (&obj_ret, &ret) {
            if o.is_some() != r.is_some() {
                ctx.violation(format!("C02 object-vs-block {sigbase} n={}", have.len()), format!("K={K}: after {} distinct symbols the block decoder answers {} but the object-level decoder of the same one-block object (packets fed through a mix of decode() and add_new_packet()+get_result()) answers {}", have.len(), if r.is_some() { "Some" } else { "None" }, if o.is_some() { "Some" } else { "None" }), replay);
                return;
            }
        } else if let Err(m) = &obj_ret {
            ctx.violation(format!("C02 object-decoder-panic {sigbase} n={}", have.len()), format!("K={K}: object-level decoder panicked after {} distinct encoder-produced symbols: {}", have.len(), short(m, 120)), replay);
            return;
        }
        let ret = match ret {
            Err(m) => {
                ctx.violation(format!("C02 decoder-panic {sigbase} n={}", have.len()), format!("K={K}: decoder panicked after {} distinct encoder-produced symbols: {}", have.len(), short(&m, 120)), replay);
                return;
            }
            Ok(r) => r,
        };
        if have.len() < K {
            st.below_k.fetch_add(1, Relaxed);
            if ret.is_some() {
                ctx.violation(format!("C02 some-below-K {sigbase} n={}", have.len()), format!("K={K}: decoder answered with only {} distinct symbols", have.len()), replay);
                return;
            }
            continue;
        }
        let all_source = (0..K as u32).all(|e| have.contains(&e));
        let (brank, frank, L) = if all_source { (0, 0, 0) } else { oracle(gf, K, &have) };
        let want = all_source || frank == L;
        st.decisions.fetch_add(1, Relaxed);
        if !all_source {
            let mut h = H64::new();
            let mut v: Vec<u32> = have.iter().copied().collect();
            v.sort_unstable();
            h.u64(K as u64);
            for e in v {
                h.u64(e as u64);
            }
            ctx.nontrivial(h.get());
            if !want && have.len() >= p_l_of(K) {
                st.flood_undecodable.fetch_add(1, Relaxed);
            }
            if !want {
                st.undecodable_ge_k.fetch_add(1, Relaxed);
                undecodable_run += 1;
                if undecodable_run == 2 {
                    st.stubborn_orders.fetch_add(1, Relaxed);
                }
            } else if have.len() == K {
                st.decodable_at_exactly_k.fetch_add(1, Relaxed);
            }
            let p = rm::params(K);
            if have.len() + (p.Kp - K) >= p.Kp + p.H {
                // the GF(2)-only attempt is made on this set
                if brank == L {
                    st.gf2_only_sufficient.fetch_add(1, Relaxed);
                } else if want {
                    st.fallback_cases.fetch_add(1, Relaxed);
                }
            }
        }
        match (&ret, want) {
            (None, true) => {
                ctx.violation(
                    format!("C02 gave-up {sigbase} n={}", have.len()),
                    format!("K={K} (threshold {}): after {} distinct symbols the received set determines the block (constraint matrix rank {frank} = L = {L}; binary rows alone have rank {brank}; all source present: {all_source}) but the decoder answered None", c.threshold, have.len()),
                    replay,
                );
                return;
            }
            (Some(_), false) => {
                ctx.violation(
                    format!("C02 answered-undecodable {sigbase} n={}", have.len()),
                    format!("K={K}: after {} distinct symbols the constraint matrix has rank {frank} < L = {L} (undecodable) but the decoder returned a block", have.len()),
                    replay,
                );
                return;
            }
            (Some(v), true) => {
                if v[..] != data[..] {
                    ctx.violation(format!("C02 wrong-bytes {sigbase} n={}", have.len()), format!("K={K}: decoder returned a block that differs from the source block at byte {:?}", first_diff(v, &data)), replay);
                }
                return; // decoded: later calls are C08's business
            }
            (None, false) => {}
        }
    }
    if c.batch_first > 1 {
        st.batch_cases.fetch_add(1, Relaxed);
    }
}

pub fn run(ctx: &Ctx) -> i32 {
    let gf = Gf::new();
    let st = Stats::default();
    let kmax = ctx.args.ex_u64("kmax", ctx.args.pick(1200, 3000)) as usize;
    if let Some(p) = &ctx.args.replay {
        let j = parse_json(&std::fs::read_to_string(p).expect("replay file")).expect("json");
        let c = j.get("case").unwrap();
        let case = gen_case(c.u("seed"), c.u("idx"), c.u("kmax") as usize);
        ctx.eval(1);
        run_case(ctx, &gf, &case, case_json(c.u("seed"), c.u("idx"), c.u("kmax") as usize, &case), &st);
        ctx.nontrivial(1);
        ctx.nontrivial(2);
        return ctx.finish("replay of one recorded arrival sequence", &[], vec![]);
    }
    crashlog::set_case_fields(&["seed", "idx", "kmax"]);
    let n = ctx.args.ex_u64("n", ctx.args.pick(24000, 600000)) as usize;
    let ev0 = raptorq::verif::events::read();
    par_for(n, |i| {
        if ctx.too_many_violations() {
            return;
        }
        crashlog::note(crashlog::CASE, &[ctx.seed(), i as u64, kmax as u64]);
        let c = gen_case(ctx.seed(), i as u64, kmax);
        let rj = case_json(ctx.seed(), i as u64, kmax, &c);
        if i < 3 {
            ctx.sample(|| rj.clone());
        }
        run_case(ctx, &gf, &c, rj, &st);
        ctx.eval(1);
    });
    // every Table-2 row up to sweep_kmax (cost of the rank oracle grows with L^3 / 64), and every 5th
    // larger row up to sweep_kmax2, rotating with the seed
    let sweep_kmax = ctx.args.ex_u64("sweep_kmax", ctx.args.pick(2200, 4500)) as usize;
    let sweep_kmax2 = ctx.args.ex_u64("sweep_kmax2", ctx.args.pick(4500, 9000)) as usize;
    let sweep_done = AtomicU64::new(0);
    if ctx.args.ex("n").is_none() {
        par_for(2 * TABLE2.len(), |j| {
            let kp = TABLE2[j / 2].0 as usize;
            if ctx.too_many_violations() || kp > sweep_kmax2 || (kp > sweep_kmax && (j as u64 / 2 + ctx.seed()) % 5 != 0) {
                return;
            }
            let idx = SWEEP_BASE + j as u64;
            crashlog::note(crashlog::CASE, &[ctx.seed(), idx, kmax as u64]);
            let c = gen_case(ctx.seed(), idx, kmax);
            let rj = case_json(ctx.seed(), idx, kmax, &c);
            run_case(ctx, &gf, &c, rj, &st);
            sweep_done.fetch_add(1, Relaxed);
            ctx.eval(1);
        });
    }
    ctx.cov("table2_sweep_cases_(K=K'_and_K=K'-1_or_prevK'+1)", J::i(sweep_done.load(Relaxed)));
    let n_hideg = if ctx.args.ex("n").is_none() { ctx.args.pick(60_000usize, 1_200_000) } else { 0 };
    par_for(n_hideg, |j| {
        if ctx.too_many_violations() {
            return;
        }
        let idx = HIDEG_BASE + j as u64;
        crashlog::note(crashlog::CASE, &[ctx.seed(), idx, kmax as u64]);
        let c = gen_case(ctx.seed(), idx, kmax);
        let rj = case_json(ctx.seed(), idx, kmax, &c);
        run_case(ctx, &gf, &c, rj, &st);
        ctx.eval(1);
    });
    ctx.cov("high_LT_degree_sets_(first_phase_rows_with_r>=4)", J::i(n_hideg));
    let n_over = if ctx.args.ex("n").is_none() { ctx.args.pick(40_000usize, 800_000) } else { 0 };
    par_for(n_over, |j| {
        if ctx.too_many_violations() {
            return;
        }
        let idx = OVER_BASE + j as u64;
        crashlog::note(crashlog::CASE, &[ctx.seed(), idx, kmax as u64]);
        let c = gen_case(ctx.seed(), idx, kmax);
        let rj = case_json(ctx.seed(), idx, kmax, &c);
        run_case(ctx, &gf, &c, rj, &st);
        ctx.eval(1);
    });
    ctx.cov("over-provisioned_one-call_sets_(more_than_2H_surplus_rows)", J::i(n_over));
    let n_rowflood = if ctx.args.ex("n").is_none() { ctx.args.pick(8usize, 80) } else { 1 };
    par_for(n_rowflood, |j| {
        if ctx.too_many_violations() {
            return;
        }
        let idx = ROWFLOOD_BASE + j as u64;
        crashlog::note(crashlog::CASE, &[ctx.seed(), idx, kmax as u64]);
        let c = gen_case(ctx.seed(), idx, kmax);
        let rj = case_json(ctx.seed(), idx, kmax, &c);
        run_case(ctx, &gf, &c, rj, &st);
        ctx.eval(1);
    });
    ctx.cov("row_floods_(more_than_2^16_distinct_symbols_of_a_small_block_in_one_call)", J::i(n_rowflood));
    let ev = raptorq::verif::events::read();
    ctx.cov("prefix_decisions_compared_with_rank_oracle", J::i(st.decisions.load(Relaxed)));
    ctx.cov("prefixes_below_K_asserted_None", J::i(st.below_k.load(Relaxed)));
    ctx.cov("decodable_at_exactly_K_symbols", J::i(st.decodable_at_exactly_k.load(Relaxed)));
    ctx.cov("gf2_only_attempt_sufficient_sets", J::i(st.gf2_only_sufficient.load(Relaxed)));
    ctx.cov("decode_calls_that_also_carried_duplicates", J::i(st.calls_with_duplicates.load(Relaxed)));
    ctx.cov("hook_counters", J::obj(vec![("case3a_gf2_only_attempts", J::i(ev[2] - ev0[2])), ("case3a_gf2_only_success", J::i(ev[3] - ev0[3])), ("case3b_full_solve_attempts", J::i(ev[4] - ev0[4])), ("case3b_full_solve_success", J::i(ev[5] - ev0[5]))]));
    let q = ctx.args.ex("n").is_none();
    ctx.floor("truly_undecodable_prefixes_with_at_least_K_symbols", st.undecodable_ge_k.load(Relaxed), if q { 50 } else { 1 });
    ctx.floor("sets_where_gf2_only_attempt_must_fall_back_to_the_full_solve", st.fallback_cases.load(Relaxed), if q { 50 } else { 1 });
    ctx.floor("undecodable_prefixes_holding_at_least_L_symbols_(flood_of_dependent_symbols)", st.flood_undecodable.load(Relaxed), if q { 50 } else { 0 });
    ctx.floor("arrival_orders_with_two_or_more_consecutive_undecodable_prefixes_of_at_least_K_symbols_(stubborn_family)", st.stubborn_orders.load(Relaxed), if q { 40 } else { 0 });
    ctx.floor("prefix_decisions", st.decisions.load(Relaxed), if q { 10000 } else { 10 });
    ctx.finish(
        "arrival sequences of distinct encoder-produced symbols aimed at the decision boundary: 0..K-1 surviving source symbols + repair ESIs (small, uniform over [K,2^24), top of range) up to exactly K symbols, then extras one by one; one third of the cases start with one batch of K+H..K+H+3 symbols (reaches the GF(2)-only attempt; sets whose binary rows are rank deficient while the full matrix has rank L are counted as fallback cases); one case in 40 floods the decoder with L..L+11 repair symbols taken from at most 6 classes of ESIs with identical LT rows (rank far below L however many arrive) before the symbols that complete the rank, or (one flood case in three) is a 'stubborn' order whose prefixes of K, K+1, .. K+m symbols (m = 1..4) are all rank deficient, built by rejection sampling with the rank oracle; K in 1..60, random Table-2 K' and K'+-1 up to kmax, uniform up to kmax, 60 000 / 1 200 000 sets of a small block (K' <= 42) made only of repair symbols of LT degree >= 4 (so that the first solver phase meets rows with r >= 4), 40 000 / 800 000 over-provisioned sets (K-1..K-3 source symbols and (K'-K+1)+2H+1.. repair symbols in one call), 8 / 80 row floods (more than 2^16 distinct symbols of a K <= 40 block in one call), plus one sweep over every Table-2 row up to sweep_kmax (every 5th row above, up to sweep_kmax2) with K = K' and K = K'-1 / previous K'+1 and 1-3 lost source symbols; T 1..4; sparse threshold {0,250,inf}. After EVERY call: Some iff (all source present or rank over GF(256) of [LDPC; HDPC; LT rows of received+padding ISIs] = L) computed by the independent reference model; Some implies the right bytes. non-trivial = prefix with >= K distinct symbols and not all-source; distinct by (K, ESI set)",
        &["rank oracle = harness's independent model of RFC 6330 5.3.3.3 / 5.3.5 (golden tables; GF(2) elimination on bitsets then GF(256) elimination of the HDPC residual)", "symbol payloads are those of the crate's encoder (whose RFC conformance is C04's business)"],
        vec![],
    )
}
