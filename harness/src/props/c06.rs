//! C06 — every block size is encodable; intermediate symbols satisfy all constraints, on every
//! construction route.
#![allow(non_snake_case)]
use super::certify::*;
use crate::common::*;
use crate::golden::TABLE2;
use crate::refmodel::{self as rm, Gf};
use raptorq::{ObjectTransmissionInformation as Oti, SourceBlockEncoder, SourceBlockEncodingPlan};
use std::sync::atomic::{AtomicU64, Ordering::Relaxed};
use std::sync::Mutex;

pub const ROUTES: [&str; 6] = ["new(cached plan)", "with_encoding_plan(generate)", "unplanned sparse (threshold 0)", "unplanned dense (threshold inf)", "plan generated sparse + replay", "plan generated dense + replay"];

pub fn build(route: usize, K: usize, cfg: &Oti, data: &[u8]) -> SourceBlockEncoder {
    match route {
        0 => SourceBlockEncoder::new(3, cfg, data),
        1 => SourceBlockEncoder::with_encoding_plan(3, cfg, data, &SourceBlockEncodingPlan::generate(K as u16)),
        2 => SourceBlockEncoder::verif_new_unplanned(3, cfg, data, 0),
        3 => SourceBlockEncoder::verif_new_unplanned(3, cfg, data, u32::MAX),
        4 => SourceBlockEncoder::with_encoding_plan(3, cfg, data, &SourceBlockEncodingPlan::verif_generate(K as u16, 0)),
        _ => SourceBlockEncoder::with_encoding_plan(3, cfg, data, &SourceBlockEncodingPlan::verif_generate(K as u16, u32::MAX)),
    }
}

fn run_one(ctx: &Ctx, gf: &Gf, rel: &Relations, K: usize, T: usize, route: usize, seed: u64, counts: &[AtomicU64; 6]) -> Option<SourceBlockEncoder> {
    crashlog::set_case_fields(&["K", "T", "route", "data_seed"]);
    crashlog::note(crashlog::CASE, &[K as u64, T as u64, route as u64, seed]);
    let mut rng = Rng::new(seed);
    let data = rng.bytes(K * T);
    let cfg = Oti::new((K * T) as u64, T as u16, 1, 1, 1);
    let case = || J::obj(vec![("K", J::i(K)), ("T", J::i(T)), ("route", J::i(route)), ("route_name", J::s(ROUTES[route])), ("data_seed", J::i(seed))]);
    let enc = match guarded(|| build(route, K, &cfg, &data)) {
        Ok(e) => e,
        Err(m) => {
            ctx.violation(format!("C06 build K={K} route={route}"), format!("K={K} (K'={}): building an encoder via {} failed: {}", rel.p.Kp, ROUTES[route], short(&m, 120)), case());
            return None;
        }
    };
    if enc.verif_num_intermediate_symbols() != rel.p.L {
        ctx.violation(format!("C06 L K={K} route={route}"), format!("K={K}: {} intermediate symbols, L={}", enc.verif_num_intermediate_symbols(), rel.p.L), case());
        return None;
    }
    let c = |i: usize| enc.verif_intermediate_symbol(i);
    let src = |i: usize| &data[i * T..(i + 1) * T];
    if let Err(e) = certify(gf, rel, K, T, &c, &src) {
        ctx.violation(format!("C06 constraints K={K} T={T} route={route}"), format!("K={K} (K'={}), T={T}, route {}: {e}", rel.p.Kp, ROUTES[route]), case());
        return None;
    }
    counts[route].fetch_add(1, Relaxed);
    ctx.nontrivial((K as u64) << 8 | route as u64);
    Some(enc)
}

/// Object-level construction: `Encoder::new` generates one plan and reuses it for consecutive
/// blocks of equal size; blocks of KL = KS + 1 and KS symbols straddle a Table-2 row exactly when
/// KS is a table value. Every block's intermediate symbols are certified.
fn run_object(ctx: &Ctx, gf: &Gf, kp: usize, Z: usize, n_obj: &AtomicU64) {
    use raptorq::Encoder;
    let T = 2usize;
    // Kt = Z*kp + (Z-1): Z-1 blocks of kp+1 symbols followed by one of kp  (KL = kp+1, KS = kp)
    let kt = Z * kp + (Z - 1);
    let f = kt * T - 1;
    let mut rng = Rng::derive(ctx.seed(), 66, (kp * 8 + Z) as u64);
    let data = rng.bytes(f);
    let cfg = Oti::new(f as u64, T as u16, Z as u8, 1, 1);
    let case = || J::obj(vec![("object", J::B(true)), ("Kp", J::i(kp)), ("Z", J::i(Z))]);
    let enc = match guarded(|| Encoder::new(&data, cfg)) {
        Ok(e) => e,
        Err(m) => {
            ctx.violation(format!("C06 object-build K'={kp} Z={Z}"), format!("Encoder::new for an object of {kt} symbols in {Z} blocks ({} blocks of {} symbols, then {} of {kp}) failed: {}", Z - 1, kp + 1, 1, short(&m, 120)), case());
            return;
        }
    };
    let mut off = 0usize;
    for (z, be) in enc.get_block_encoders().iter().enumerate() {
        let K = if z < Z - 1 { kp + 1 } else { kp };
        let mut block = vec![0u8; K * T];
        for i in 0..K * T {
            if off + i < f {
                block[i] = data[off + i];
            }
        }
        off += K * T;
        let rel = Relations::new(gf, K);
        if be.verif_num_intermediate_symbols() != rel.p.L {
            ctx.violation(format!("C06 object-L K'={kp} Z={Z} z={z}"), format!("object with blocks of {} / {kp} symbols: block {z} (K={K}) holds {} intermediate symbols, L={}", kp + 1, be.verif_num_intermediate_symbols(), rel.p.L), case());
            return;
        }
        let c = |i: usize| be.verif_intermediate_symbol(i);
        let src = |i: usize| &block[i * T..(i + 1) * T];
        if let Err(e) = certify(gf, &rel, K, T, &c, &src) {
            ctx.violation(format!("C06 object-constraints K'={kp} Z={Z} z={z}"), format!("object with blocks of {} / {kp} symbols built by Encoder::new: block {z} (K={K}): {e}", kp + 1), case());
            return;
        }
    }
    n_obj.fetch_add(1, Relaxed);
    ctx.nontrivial((kp as u64) << 8 | 0x80 | Z as u64);
}

pub fn run(ctx: &Ctx) -> i32 {
    let gf = Gf::new();
    let counts: [AtomicU64; 6] = Default::default();
    if let Some(pth) = &ctx.args.replay {
        let j = parse_json(&std::fs::read_to_string(pth).expect("replay file")).expect("json");
        let c = j.get("case").unwrap();
        ctx.eval(1);
        if c.get("object").is_some() {
            run_object(ctx, &gf, c.u("Kp") as usize, c.u("Z") as usize, &AtomicU64::new(0));
            ctx.nontrivial(1);
            ctx.nontrivial(2);
            return ctx.finish("replay of one recorded object construction", &[], vec![]);
        }
        let K = c.u("K") as usize;
        run_one(ctx, &gf, &Relations::new(&gf, K), K, c.u("T") as usize, c.u("route") as usize, c.u("data_seed"), &counts);
        ctx.nontrivial(1);
        ctx.nontrivial(2);
        return ctx.finish("replay of one recorded construction", &[], vec![]);
    }
    let quick = ctx.args.quick();
    let dense_max = ctx.args.ex_u64("dense_max", ctx.args.pick(1000, 5000)) as usize;
    let rows: Vec<usize> = TABLE2.iter().map(|r| r.0 as usize).collect();
    let kp_done = Mutex::new(std::collections::BTreeSet::new());
    // big K' first
    let order: Vec<usize> = (0..rows.len()).rev().collect();
    par_for(order.len(), |oi| {
        if ctx.too_many_violations() {
            return;
        }
        let ri = order[oi];
        let kp = rows[ri];
        let prev = if ri == 0 { 0 } else { rows[ri - 1] };
        let rel = Relations::new(&gf, kp);
        let mut rng = Rng::derive(ctx.seed(), 6, kp as u64);
        // K = K' (no padding) and K = previous K' + 1 (maximum padding)
        let mut ks = vec![kp];
        if prev + 1 < kp {
            ks.push(prev + 1);
        }
        let mut all_ok = true;
        for (ki, &K) in ks.iter().enumerate() {
            let T = if kp > 20000 { 1 } else { *rng.pick(&[1usize, 3]) };
            // default route for every K'; the other routes on a stratified subset in quick
            // (K' = 1002, 1285 and 2005 are always in: the dense back-end there packs more than 64 inactivated
            // columns, i.e. several words, per row - dense_max permitting)
            let stratum = quick && !(ri % 6 == (ctx.seed() % 6) as usize || kp <= 120 || kp == 1002 || kp == 1285 || kp == 2005);
            let mut encs = vec![];
            for route in 0..6 {
                let dense = route == 3 || route == 5;
                if dense && kp > dense_max && !(quick && (kp == 1002 || kp == 1285 || kp == 2005)) {
                    continue;
                }
                if route != 0 && (stratum || (quick && ki == 1 && route > 2)) {
                    continue;
                }
                if route >= 4 && kp > 30000 && quick {
                    continue;
                }
                let seed = ctx.seed() ^ (K as u64) << 20; // same data on every route, so routes can be compared
                let e = run_one(ctx, &gf, &rel, K, T, route, seed, &counts);
                ctx.eval(1);
                all_ok &= e.is_some();
                if let Some(e) = e {
                    encs.push((route, e));
                }
            }
            // all routes must agree with each other (same intermediate symbols, same encoder value up to block id)
            for w in encs.windows(2) {
                let same = (0..rel.p.L).all(|i| w[0].1.verif_intermediate_symbol(i) == w[1].1.verif_intermediate_symbol(i));
                if !same {
                    ctx.violation(format!("C06 routes-differ K={K} {} vs {}", w[0].0, w[1].0), format!("K={K}: routes '{}' and '{}' produce different intermediate symbols for the same data", ROUTES[w[0].0], ROUTES[w[1].0]), J::obj(vec![("K", J::i(K)), ("T", J::i(T)), ("route", J::i(w[1].0)), ("data_seed", J::i(ctx.seed() ^ (K as u64) << 20))]));
                }
            }
        }
        if all_ok {
            kp_done.lock().unwrap().insert(kp);
        }
        if oi % 20 == 0 {
            #[cfg(feature = "full")]
            raptorq::verif::verif_cache::clear();
        }
    });
    // huge symbols: every route on a few small blocks with symbol sizes beyond 16 KiB (column-striped or
    // tiled replay paths would only show there); routes must agree and satisfy every relation
    let huge: Vec<(usize, usize)> = vec![(10, 16385), (12, 20000), (26, 32769), (101, 40001), (55, 65535), (10, 65528)];
    par_for(huge.len(), |i| {
        let (K, T) = huge[i];
        let rel = Relations::new(&gf, rm::params(K).Kp);
        let seed = ctx.seed() ^ 0x6006 ^ (i as u64) << 8;
        let mut encs = vec![];
        for route in 0..6 {
            if let Some(e) = run_one(ctx, &gf, &rel, K, T, route, seed, &counts) {
                encs.push((route, e));
            }
            ctx.eval(1);
        }
        for w in encs.windows(2) {
            let differ = (0..rm::params(K).L).any(|j| w[0].1.verif_intermediate_symbol(j) != w[1].1.verif_intermediate_symbol(j));
            if differ {
                ctx.violation(format!("C06 routes-differ K={K} T={T} {} vs {}", w[0].0, w[1].0), format!("K={K}, T={T}: routes '{}' and '{}' produce different intermediate symbols for the same data", ROUTES[w[0].0], ROUTES[w[1].0]), J::obj(vec![("K", J::i(K)), ("T", J::i(T)), ("route", J::i(w[1].0)), ("data_seed", J::i(seed))]));
            }
        }
    });
    // object-level route: every table size up to the bound as KS with KL = KS + 1
    let n_obj = AtomicU64::new(0);
    let obj_max = ctx.args.ex_u64("object_max", ctx.args.pick(3000, 20000)) as usize;
    let obj_rows: Vec<usize> = rows.iter().copied().filter(|&k| k <= obj_max).collect();
    par_for(obj_rows.len(), |i| {
        let kp = obj_rows[i];
        run_object(ctx, &gf, kp, 2 + i % 2, &n_obj);
        ctx.eval(1);
        if i % 20 == 0 {
            #[cfg(feature = "full")]
            raptorq::verif::verif_cache::clear();
        }
    });
    ctx.cov("objects_built_by_Encoder_new_with_blocks_straddling_a_table_row", J::i(n_obj.load(Relaxed)));
    let done = kp_done.lock().unwrap().len();
    ctx.cov("K'_values_encodable_and_certified_on_the_default_route", J::i(done));
    ctx.cov("routes", J::O(ROUTES.iter().enumerate().map(|(i, r)| (r.to_string(), J::i(counts[i].load(Relaxed)))).collect()));
    ctx.cov("dense_routes_bounded_to_K'_at_most", J::i(dense_max));
    ctx.sample(|| J::obj(vec![("K'", J::i(10)), ("K", J::s("10 and 1..")), ("routes", J::A(ROUTES.iter().map(|r| J::s(*r)).collect()))]));
    ctx.sample(|| J::obj(vec![("K'", J::i(56403)), ("K", J::s("56403 and 55837")), ("routes", J::s("new, with_encoding_plan, unplanned sparse"))]));
    if ctx.n_violations() == 0 {
        ctx.floor("K'_values_certified", done as u64, 477);
        ctx.floor("constructions_via_unplanned_sparse", counts[2].load(Relaxed), 50);
        ctx.floor("constructions_via_unplanned_dense", counts[3].load(Relaxed), 30);
        ctx.floor("constructions_via_plan_replay", counts[1].load(Relaxed) + counts[4].load(Relaxed) + counts[5].load(Relaxed), 50);
    }
    ctx.finish(
        "all 477 K' of Table 2, each with K = K' and K = previous K' + 1 (maximum padding), T in {1,3} (plus six small blocks with symbol sizes 16 385 ... 65 535 on every route), random data; encoder built via new (cached plan) for every K' and via with_encoding_plan(generate), unplanned direct solve with sparse threshold 0 / infinity, and plans generated on either matrix back-end then replayed (all K' in thorough; a stratified subset in quick; dense back-end bounded by dense_routes_bounded_to_K'_at_most); the intermediate symbols read through hook H4 must satisfy every LDPC, HDPC and LT relation of the reference model, all routes must yield identical intermediate symbols, and for every table size KS up to object_max an object with blocks of KS+1 and KS symbols is built through Encoder::new (which reuses one plan for consecutive equal-sized blocks) and every block certified. non-trivial = one (K, route) construction; distinct by (K, route)",
        &["reference relations from the harness's RFC model + golden tables", "dense-matrix routes for K' above the stated bound are not run (a dense 57000^2 bit matrix solve is out of budget)"],
        vec![("exhaustive", J::B(done == 477))],
    )
}
