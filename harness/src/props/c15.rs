//! C15 — code parameters and symbol tuples are well-formed for every K and every ESI.
#![allow(non_snake_case)]
use super::util::pkt;
use crate::common::*;
use crate::golden::TABLE2;
use crate::refmodel::{self as rm, Params};
use raptorq::verif as v;
use raptorq::{ObjectTransmissionInformation as Oti, SourceBlockDecoder, SourceBlockEncoder};
use std::sync::atomic::{AtomicU64, Ordering::Relaxed};

fn is_prime(n: u64) -> bool {
    if n < 2 {
        return false;
    }
    let mut d = 2;
    while d * d <= n {
        if n % d == 0 {
            return false;
        }
        d += 1;
    }
    true
}

fn check_params(ctx: &Ctx, K: u32) {
    let p = rm::params(K as usize);
    let r = guarded(|| {
        (
            raptorq::extended_source_block_symbols(K),
            v::systematic_index(K),
            v::num_ldpc_symbols(K),
            v::num_hdpc_symbols(K),
            v::num_lt_symbols(K),
            v::num_intermediate_symbols(K),
            v::num_pi_symbols(K),
            v::calculate_p1(K),
        )
    });
    let want = (p.Kp as u32, p.J as u32, p.S as u32, p.H as u32, p.W as u32, p.L as u32, p.P as u32, p.P1 as u32);
    // structural consistency of the reference itself (independent of the crate): these are the
    // property's own claims about Table 2
    let least = TABLE2.iter().map(|r| r.0).find(|&kp| kp >= K).unwrap();
    let structural = p.Kp as u32 == least && is_prime(p.S as u64) && is_prime(p.W as u64) && is_prime(p.P1 as u64) && (p.P..p.P1).all(|x| !is_prime(x as u64)) && p.W >= p.S + 1 && p.P >= p.H && p.H >= 2 && p.L < 65536 && p.L == p.Kp + p.S + p.H && p.P == p.L - p.W;
    if !structural {
        ctx.violation(format!("C15 params-structure K={K}"), format!("K={K}: parameters (K',J,S,H,W,L,P,P1)={want:?} violate a structural requirement (K' least table size >= K; S, W prime; P1 least prime >= P; B>=1; P>=H>=2; L<65536)"), J::obj(vec![("kind", J::s("params")), ("K", J::i(K))]));
    }
    match r {
        Ok(g) if g == want => {}
        other => ctx.violation(format!("C15 params K={K}"), format!("K={K}: crate reports (K',J,S,H,W,L,P,P1)={other:?}, Table 2 gives {want:?}"), J::obj(vec![("kind", J::s("params")), ("K", J::i(K))])),
    }
}

#[inline]
fn check_tuple(ctx: &Ctx, p: &Params, X: u64, bad: &AtomicU64) {
    let want = rm::tuple(p, X);
    let (d, a, b, d1, a1, b1) = want;
    let (W, P1) = (p.W as u64, p.P1 as u64);
    let in_range = 1 <= d && d <= 30.min(W - 2) && 1 <= a && a < W && b < W && (d1 == 2 || d1 == 3) && 1 <= a1 && a1 < P1 && b1 < P1;
    let got = guarded(|| v::intermediate_tuple(X as u32, p.W as u32, p.J as u32, p.P1 as u32));
    let ok = matches!(got, Ok(g) if (g.0 as u64, g.1 as u64, g.2 as u64, g.3 as u64, g.4 as u64, g.5 as u64) == want) && in_range;
    if !ok && bad.fetch_add(1, Relaxed) < 40 {
        ctx.violation(
            format!("C15 tuple K'={} X={X}", p.Kp),
            format!("Tuple[K'={}, X={X}]: crate gives {:?}, RFC 5.3.5.4 (u64 arithmetic) gives {want:?}, in range: {in_range}", p.Kp, got.map_err(|m| short(&m, 80))),
            J::obj(vec![("kind", J::s("tuple")), ("Kp", J::i(p.Kp)), ("X", J::i(X))]),
        );
    }
}

/// inverse of an odd number modulo 2^32 (Newton iteration)
fn inv_mod_2_32(a: u64) -> u64 {
    let mut x: u64 = 1;
    for _ in 0..6 {
        x = x.wrapping_mul(2u64.wrapping_sub(a.wrapping_mul(x))) & 0xFFFF_FFFF;
    }
    x
}

/// ISIs whose Rand argument y = (B + X*A) mod 2^32 is 2^32-1 or 2^32-2: the only inputs for
/// which `y + i` (i <= 2) leaves the u32 range
pub fn hostile_isis(p: &Params) -> Vec<u64> {
    let mut A = 53591 + p.J * 997;
    if A % 2 == 0 {
        A += 1;
    }
    let B = 10267 * (p.J + 1);
    let inv = inv_mod_2_32(A & 0xFFFF_FFFF);
    let mut out = vec![];
    for y in [(1u64 << 32) - 1, (1u64 << 32) - 2] {
        let X = (y.wrapping_sub(B) & 0xFFFF_FFFF).wrapping_mul(inv) & 0xFFFF_FFFF;
        debug_assert_eq!((B + X * A) % (1 << 32), y);
        if X < (1 << 24) + p.Kp as u64 {
            out.push(X);
        }
    }
    out
}

/// producing and consuming the symbol with internal id X for a block of K symbols
fn produce_consume(ctx: &Ctx, K: usize, X: u64, what: &str) {
    let p = rm::params(K);
    let esi = (X - (p.Kp - K) as u64) as u32;
    if (esi as usize) < K || esi >= 1 << 24 {
        return;
    }
    let T = 2usize;
    let mut rng = Rng::derive(ctx.seed(), 1515, (K as u64) << 32 | X);
    let data = rng.bytes(K * T);
    let r = guarded(|| {
        let cfg = Oti::new((K * T) as u64, T as u16, 1, 1, 1);
        let enc = SourceBlockEncoder::new(0, &cfg, &data);
        let rp = enc.repair_packets(esi - K as u32, 1).pop().unwrap();
        // reference: Enc over the encoder's intermediate symbols with the reference tuple
        let c: Vec<Vec<u8>> = (0..p.L).map(|i| enc.verif_intermediate_symbol(i).to_vec()).collect();
        let want = rm::enc_symbol(&p, &c, X);
        // consume: drop source symbol 0, decode with this repair packet (+1 more in case of rank deficiency)
        let mut dec = SourceBlockDecoder::new(0, &cfg, (K * T) as u64);
        let mut pk: Vec<_> = enc.source_packets().into_iter().skip(1).collect();
        pk.push(pkt(0, esi, rp.data().to_vec()));
        pk.extend(enc.repair_packets(0, 2));
        let out = dec.decode(pk);
        (rp.data().to_vec(), want, out)
    });
    let case = J::obj(vec![("kind", J::s("produce")), ("K", J::i(K)), ("X", J::i(X))]);
    match r {
        Err(m) => ctx.violation(format!("C15 produce/consume K={K} X={X}"), format!("producing/consuming the {what} symbol ISI={X} (ESI={esi}) of a K={K} block panicked: {}", short(&m, 120)), case),
        Ok((got, want, out)) => {
            if got != want {
                ctx.violation(format!("C15 produce K={K} X={X}"), format!("repair symbol ESI={esi} (ISI={X}) of a K={K} block is {:02x?}, Enc with the RFC tuple gives {:02x?}", got, want), case.clone());
            }
            if out.as_deref() != Some(&data[..]) {
                ctx.violation(format!("C15 consume K={K} X={X}"), format!("decoding a K={K} block from K-1 source symbols + repair ESI={esi} (ISI={X}) + 2 more returned {:?}", out.map(|v| v.len())), case);
            }
        }
    }
}

pub fn run(ctx: &Ctx) -> i32 {
    if let Some(pth) = &ctx.args.replay {
        let j = parse_json(&std::fs::read_to_string(pth).expect("replay file")).expect("json");
        let c = j.get("case").unwrap();
        ctx.eval(1);
        match c.st("kind") {
            "params" => check_params(ctx, c.u("K") as u32),
            "tuple" => check_tuple(ctx, &rm::params(c.u("Kp") as usize), c.u("X"), &AtomicU64::new(0)),
            "object" | "rand" => println!("note: this case kind is reproduced by re-running ./check C15 with the same VERIF_SEED"),
            _ => produce_consume(ctx, c.u("K") as usize, c.u("X"), "recorded"),
        }
        ctx.nontrivial(1);
        ctx.nontrivial(2);
        return ctx.finish("replay of one recorded case", &[], vec![]);
    }
    // (1) all K in 0..=56403
    par_for(57, |c| {
        for K in (c * 1000)..((c + 1) * 1000).min(56404) {
            check_params(ctx, K as u32);
        }
    });
    ctx.eval(56404);
    ctx.cov("K_values_enumerated", J::s("all of 0..=56403"));
    // (1b) the look-ups are functions of K alone: the same answers in hostile query orders (descending,
    // jumping between neighbouring table rows, random), on one thread and on all threads at once
    let order_queries = AtomicU64::new(0);
    let kps: Vec<u32> = TABLE2.iter().map(|r| r.0).collect();
    par_for(threads().max(2), |t| {
        let mut n = 0u64;
        if t == 0 {
            for K in (0..=56403u32).rev() {
                check_params(ctx, K);
                n += 1;
            }
        } else if t == 1 {
            // every ordered pair of queries (a, b) with a in row r and b the last / first element of a
            // neighbouring row, and the row's own ends
            for r in 0..kps.len() {
                let lo = if r == 0 { 0 } else { kps[r - 1] + 1 };
                let hi = kps[r];
                let mut probes = vec![lo, hi, (lo + hi) / 2];
                probes.dedup();
                let mut targets = vec![];
                if r > 0 {
                    targets.push(kps[r - 1]);
                    targets.push(if r > 1 { kps[r - 2] + 1 } else { 0 });
                    targets.push(kps[r - 1].saturating_sub(1));
                }
                if r + 1 < kps.len() {
                    targets.push(kps[r] + 1);
                    targets.push(kps[r + 1]);
                }
                for &a in &probes {
                    for &b in &targets {
                        check_params(ctx, a);
                        check_params(ctx, b);
                        check_params(ctx, a);
                        n += 3;
                    }
                }
            }
        } else {
            let mut rng = Rng::derive(ctx.seed(), 1516, t as u64);
            for _ in 0..ctx.args.pick(60_000u64, 600_000) {
                let K = match rng.below(3) {
                    0 => *rng.pick(&kps),
                    1 => (*rng.pick(&kps) + 1).min(56403),
                    _ => rng.below(56404) as u32,
                };
                check_params(ctx, K);
                n += 1;
            }
        }
        order_queries.fetch_add(n, Relaxed);
    });
    ctx.eval(order_queries.load(Relaxed) as usize);
    ctx.cov("parameter_queries_in_hostile_orders_(descending,_row_jumps,_random)", J::i(order_queries.load(Relaxed)));
    // (2) tuples
    let bad = AtomicU64::new(0);
    let n_tuples = AtomicU64::new(0);
    let n_hostile = AtomicU64::new(0);
    let exhaustive = !ctx.args.quick() && ctx.args.ex_u64("exhaustive_tuples", 1) == 1;
    let hostile_list = std::sync::Mutex::new(vec![]);
    // work items: (table row, slice of X range)
    let slices = if exhaustive { 64 } else { 1 };
    par_for(477 * slices, |wi| {
        let (row, sl) = (wi / slices, wi % slices);
        let p = rm::params(TABLE2[row].0 as usize);
        let xmax = (1u64 << 24) + p.Kp as u64; // exclusive
        let mut n = 0u64;
        if exhaustive {
            let lo = xmax * sl as u64 / slices as u64;
            let hi = xmax * (sl as u64 + 1) / slices as u64;
            for X in lo..hi {
                check_tuple(ctx, &p, X, &bad);
            }
            n += hi - lo;
        } else {
            let edge = ctx.args.ex_u64("edge", 5000);
            for X in 0..edge {
                check_tuple(ctx, &p, X, &bad);
                check_tuple(ctx, &p, xmax - 1 - X, &bad);
            }
            let mut rng = Rng::derive(ctx.seed(), 15, row as u64);
            let nr = ctx.args.ex_u64("random", 20000);
            for _ in 0..nr {
                check_tuple(ctx, &p, rng.below(xmax), &bad);
            }
            n += 2 * edge + nr;
        }
        if sl == 0 {
            for X in hostile_isis(&p) {
                check_tuple(ctx, &p, X, &bad);
                n_hostile.fetch_add(1, Relaxed);
                hostile_list.lock().unwrap().push((p.Kp, X));
                n += 1;
            }
        }
        n_tuples.fetch_add(n, Relaxed);
    });
    let nt = n_tuples.load(Relaxed);
    ctx.eval(nt as usize);
    ctx.cov("tuples_checked", J::i(nt));
    ctx.cov("tuples_exhaustive_all_Kprime_all_X", J::B(exhaustive));
    let hl = hostile_list.lock().unwrap().clone();
    ctx.cov("overflow_sensitive_isis_found_algebraically", J::A(hl.iter().map(|&(k, x)| J::s(format!("K'={k} X={x}"))).collect()));
    // the V0..V3 tables, entry by entry, through rand (m = 2^32-1 keeps the xor visible)
    let mut vbad = 0;
    for x in 0..256u64 {
        for (tab, shift) in [(0u64, 0u32), (1, 8), (2, 16), (3, 24)] {
            // isolate one table: all four indices equal to x would mix tables; use pairs of probes
            let y = x << shift;
            let got = guarded(|| v::rand(y as u32, 0u32, u32::MAX)).unwrap_or(u32::MAX) as u64;
            let want = rm::rand(y, 0, u32::MAX as u64);
            if got != want && vbad < 5 {
                vbad += 1;
                ctx.violation(format!("C15 rand y={y}"), format!("Rand[{y}, 0, 2^32-1] = {got}, RFC tables give {want} (table V{tab} entry {x} or V*[0])"), J::obj(vec![("kind", J::s("rand")), ("y", J::i(y))]));
            }
        }
    }
    ctx.eval(1024);
    // Rand[y, i, m] for every y with at most two non-zero bytes (all byte positions, all byte values),
    // i in 0..=5 as Tuple[] uses it, and the moduli Tuple[] uses: a special case for "short" y would show here
    let rand_bad = AtomicU64::new(0);
    let rand_n = AtomicU64::new(0);
    par_for(256, |b0| {
        let mut n = 0u64;
        for (s0, s1) in [(0u32, 8u32), (0, 16), (0, 24), (8, 16), (8, 24), (16, 24)] {
            for b1 in 0..256u64 {
                let y = ((b0 as u64) << s0) | (b1 << s1);
                for i in 0..6u64 {
                    let m = [1u64 << 20, 2, 65521, 256, u32::MAX as u64, 3][i as usize];
                    let want = rm::rand(y, i, m);
                    let got = guarded(|| v::rand(y as u32, i as u32, m as u32)).map(|x| x as u64);
                    n += 1;
                    if got != Ok(want) && rand_bad.fetch_add(1, Relaxed) < 5 {
                        ctx.violation(format!("C15 rand y={y} i={i} m={m}"), format!("Rand[{y}, {i}, {m}]: crate gives {:?}, RFC 5.3.5.1 gives {want}", got.map_err(|e| short(&e, 80))), J::obj(vec![("kind", J::s("rand")), ("y", J::i(y))]));
                    }
                }
            }
        }
        rand_n.fetch_add(n, Relaxed);
    });
    ctx.eval(rand_n.load(Relaxed) as usize);
    ctx.cov("rand_probes_y_with_at_most_two_nonzero_bytes", J::i(rand_n.load(Relaxed)));
    // (3) producing and consuming: hostile ISIs, the top ESI, and a sample of blocks
    let mut pc = vec![];
    for &(kp, x) in &hl {
        pc.push((kp, x, "overflow-sensitive"));
        // the same ISI is reachable from smaller K with the same K' (ESI = X - (K'-K))
        let prev = TABLE2.iter().map(|r| r.0 as usize).filter(|&k| k < kp).last().unwrap_or(0);
        if prev + 1 < kp {
            pc.push((prev + 1, x, "overflow-sensitive (max padding)"));
        }
    }
    for &K in &[1usize, 10, 11, 101, 989, 2195] {
        let p = rm::params(K);
        pc.push((K, (1 << 24) - 1 + (p.Kp - K) as u64, "last ESI 2^24-1"));
    }
    // large blocks (W > 32768 from K' = 32601 on: index arithmetic of the LT walk beyond 16 bits): a few
    // random ESIs and the last one
    {
        let mut rng = Rng::derive(ctx.seed(), 1517, 0);
        for &K in &[32601usize, 40398, 56403] {
            let p = rm::params(K);
            for _ in 0..3 {
                pc.push((K, rng.range(p.Kp as u64, (1 << 24) - 1), "large block, random ESI"));
            }
            pc.push((K, (1 << 24) - 1 + (p.Kp - K) as u64, "large block, last ESI 2^24-1"));
        }
    }
    // the crate's debug-assertion build re-verifies the solver in O(L^3): keep K' <= 1000 there
    // (the tuple for every overflow-sensitive X, incl. K'=2195, is already evaluated above in both builds)
    if cfg!(debug_assertions) {
        pc.retain(|&(k, _, _)| k <= 1000);
    }
    par_for(pc.len(), |i| {
        let (K, X, what) = pc[i];
        produce_consume(ctx, K, X, what);
    });
    ctx.eval(pc.len());
    ctx.cov("produce_consume_cases", J::i(pc.len()));
    // (3b) long runs of consecutive symbols in ONE request: whatever per-run state a producer keeps (running
    // seeds, running ids, strength-reduced arithmetic) is carried across 10^5 consecutive ISIs - at the start
    // of the range, somewhere inside, and ending exactly at ESI 2^24-1 - and must neither panic (overflow
    // checks are on in the checked build) nor drift from the symbol-at-a-time answers
    let long_runs = AtomicU64::new(0);
    let run_len: u32 = ctx.args.pick(100_000, 1_000_000);
    let long_ks = [10usize, 26, 101, 477];
    par_for(long_ks.len() * 3, |i| {
        let K = long_ks[i / 3];
        let mut rng = Rng::derive(ctx.seed(), 1519, i as u64);
        let start: u32 = match i % 3 {
            0 => 0,
            1 => rng.range(1, (1 << 24) - K as u64 - run_len as u64 - 1) as u32,
            _ => (1 << 24) - K as u32 - run_len,
        };
        let data = rng.bytes(K);
        let case = J::obj(vec![("kind", J::s("long-run")), ("K", J::i(K)), ("start", J::i(start)), ("n", J::i(run_len))]);
        let r = guarded(|| {
            let enc = raptorq::SourceBlockEncoder::new(0, &Oti::new(K as u64, 1, 1, 1, 1), &data);
            let run = enc.repair_packets(start, run_len);
            let mut bad = None;
            for j in (0..run_len).step_by(997).chain([run_len - 1]) {
                if run.get(j as usize) != enc.repair_packets(start + j, 1).first() {
                    bad = Some(j);
                    break;
                }
            }
            (run.len(), bad)
        });
        long_runs.fetch_add(1, Relaxed);
        match r {
            Err(m) => ctx.violation(format!("C15 long-run panic K={K} start={start}"), format!("K={K}: producing the {run_len} consecutive repair symbols from repair index {start} (ESIs {}..={}) in one request panicked: {}", K as u32 + start, K as u32 + start + run_len - 1, short(&m, 120)), case),
            Ok((n, bad)) if n != run_len as usize || bad.is_some() => ctx.violation(format!("C15 long-run drift K={K} start={start}"), format!("K={K}: one request for {run_len} consecutive repair symbols from repair index {start} returned {n} packets; element {bad:?} differs from the symbol produced on its own"), case),
            _ => {}
        }
    });
    ctx.eval(long_ks.len() * 3);
    ctx.cov("long_runs_of_consecutive_symbols_in_one_request", J::obj(vec![("runs", J::i(long_runs.load(Relaxed))), ("symbols_per_run", J::i(run_len))]));
    // consuming through the object decoder: objects whose short blocks have exactly a Table-2 size and whose
    // long blocks (one symbol more) live in the next table row - every block must be decoded with the
    // parameters of its own K
    let rows: Vec<usize> = TABLE2.iter().map(|r| r.0 as usize).filter(|&k| k <= if cfg!(debug_assertions) { 120 } else { 600 }).collect();
    let n_obj = rows.len() * 2;
    par_for(n_obj, |i| {
        let ks = rows[i / 2];
        let Z = 2 + i % 2;
        let mut rng = Rng::derive(ctx.seed(), 1518, i as u64);
        let zl = rng.range(1, Z as u64 - 1) as usize;
        let kt = Z * ks + zl; // zl blocks of ks+1 symbols, the rest of ks symbols
        let T = 2usize;
        let pad = rng.below(T as u64) as usize;
        let data = rng.bytes(kt * T - pad);
        let case = J::obj(vec![("kind", J::s("object")), ("KS", J::i(ks)), ("Z", J::i(Z)), ("Kt", J::i(kt))]);
        let r = guarded(|| {
            let cfg = Oti::new(data.len() as u64, T as u16, Z as u8, 1, 1);
            let enc = raptorq::Encoder::new(&data, cfg);
            let mut dec = raptorq::Decoder::new(cfg);
            let mut out = None;
            for (z, be) in enc.get_block_encoders().iter().enumerate().rev() {
                let k = if z < zl { ks + 1 } else { ks };
                let lose = [0usize, k / 2, k - 1];
                for (e, p) in be.source_packets().into_iter().enumerate() {
                    if !lose.contains(&e) && out.is_none() {
                        out = dec.decode(p);
                    }
                }
                for p in be.repair_packets(rng.below(50000) as u32, 6) {
                    if out.is_none() {
                        out = dec.decode(p);
                    }
                }
            }
            out
        });
        match r {
            Err(m) => ctx.violation(format!("C15 object-consume KS={ks} Z={Z}"), format!("object of {kt} symbols in {Z} blocks ({zl} of {} symbols, the rest of {ks} = a Table-2 size): producing / consuming its symbols panicked: {}", ks + 1, short(&m, 120)), case),
            Ok(Some(v)) if v != data => ctx.violation(format!("C15 object-consume-wrong KS={ks} Z={Z}"), format!("object of {kt} symbols in {Z} blocks ({zl} of {} symbols, the rest of {ks} = a Table-2 size): decoded bytes differ from the object", ks + 1), case),
            _ => {}
        }
    });
    ctx.eval(n_obj);
    ctx.cov("objects_with_blocks_in_two_neighbouring_table_rows_consumed", J::i(n_obj));
    ctx.sample(|| J::s("K=0..=56403: (K',J,S,H,W,L,P,P1) vs Table 2 + primality"));
    ctx.sample(|| J::s(format!("Tuple[K'=10, X=0] = {:?}", rm::tuple(&rm::params(10), 0))));
    ctx.sample(|| J::s(format!("hostile ISIs {:?}", hl)));
    // distinct: every (K', X) pair is distinct by construction in the exhaustive and edge sweeps;
    // count measured distinct pairs conservatively as edge + hostile + K values
    ctx.nontrivial_many((0..56404u64).map(|k| k | 1 << 40));
    ctx.nontrivial_many(hl.iter().map(|&(k, x)| (k as u64) << 32 | x));
    ctx.cov("distinct_note", J::s("distinct_nontrivial counts the 56404 K values plus the overflow-sensitive (K',X) pairs; tuples_checked gives the number of (K',X) pairs evaluated (exhaustive sweeps visit each pair once)"));
    ctx.floor("overflow_sensitive_isis", n_hostile.load(Relaxed), 1);
    ctx.floor("tuples_checked_floor", nt, 1_000_000);
    let _ = bad;
    ctx.finish(
        "(1) every K in 0..=56403 (ascending per thread, then again descending, as row-jumping pairs around every table boundary and in random order, because the look-ups must be functions of K alone): K' = least table size >= K, S and W prime, P1 = least prime >= P, B >= 1, P >= H >= 2, L < 65536, and the crate's parameter functions equal Table 2; (2) Tuple[K',X] from the crate = RFC 5.3.5.4 computed in u64 and in range, for (quick) the first and last 5000 X, 20000 random X and the algebraically derived overflow-sensitive X of every K' / (thorough) every X in 0..2^24+K' for all 477 K'; all 1024 entries of V0..V3 probed through rand; (3) repair packets for the overflow-sensitive ISIs, ESI 2^24-1 and (release) random ESIs of blocks with W > 32768 are produced, equal Enc with the reference tuple, and are consumed by the decoder without panic; 12 runs of 10^5 (thorough 10^6) consecutive repair symbols in one request (start, middle and end of the 24-bit range) must not panic and must equal the symbols produced one at a time; objects whose blocks fall into two neighbouring Table-2 rows (KS = a table size, KL = KS + 1) are consumed through the object decoder. Run in the release build and again in the checked build (debug assertions + overflow checks)",
        &["Table 2, V0..V3 and the degree thresholds from the golden copy", "reference Rand/Deg/Tuple in u64 arithmetic"],
        vec![("exhaustive", J::B(exhaustive))],
    )
}
