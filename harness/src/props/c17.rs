//! C17 — the shared encoding-plan cache is transparent and bounded under concurrency.
#![allow(non_snake_case)]
use crate::common::*;
use raptorq::verif::verif_cache as vc;
use raptorq::{ObjectTransmissionInformation as Oti, SourceBlockEncoder, SourceBlockEncodingPlan};
use std::cell::Cell;
use std::collections::{HashMap, VecDeque};
use std::sync::atomic::{AtomicBool, AtomicU64, Ordering::Relaxed, Ordering::SeqCst};
use std::sync::{Arc, Condvar, Mutex, OnceLock};

// ---------------------------------------------------------------------------------------------
// reference: what a single thread builds without the cache
// ---------------------------------------------------------------------------------------------
fn data_for(k: u16) -> Vec<u8> {
    (0..k as usize).map(|i| (i * 7 + 3 + k as usize) as u8).collect()
}
fn cfg1() -> Oti {
    Oti::new(0, 1, 0, 1, 1)
}
fn request(k: u16) -> SourceBlockEncoder {
    SourceBlockEncoder::new(0, &cfg1(), &data_for(k))
}
struct Reference {
    plans: HashMap<u16, SourceBlockEncodingPlan>,
    encs: HashMap<u16, SourceBlockEncoder>,
}
impl Reference {
    fn new(keys: impl Iterator<Item = u16>) -> Reference {
        let mut plans = HashMap::new();
        let mut encs = HashMap::new();
        for k in keys {
            let p = SourceBlockEncodingPlan::generate(k);
            encs.insert(k, SourceBlockEncoder::with_encoding_plan(0, &cfg1(), &data_for(k), &p));
            plans.insert(k, p);
        }
        Reference { plans, encs }
    }
}

/// M2: cache invariant on a snapshot taken under the cache's own lock. Returns the size.
fn check_snapshot(refs: &Reference, ctx_s: &str) -> Result<usize, String> {
    let s = vc::snapshot();
    let cap = vc::capacity();
    if s.plans.len() != s.insertion_order.len() {
        return Err(format!("map holds {} plans but the FIFO holds {} keys ({ctx_s})", s.plans.len(), s.insertion_order.len()));
    }
    if s.plans.len() > cap {
        return Err(format!("cache holds {} plans, capacity is {cap} ({ctx_s})", s.plans.len()));
    }
    let mut f = s.insertion_order.clone();
    f.sort_unstable();
    let n0 = f.len();
    f.dedup();
    if f.len() != n0 {
        return Err(format!("FIFO contains a duplicate key: {:?} ({ctx_s})", s.insertion_order));
    }
    for (key, plan_count, _nops, plan) in &s.plans {
        if key != plan_count {
            return Err(format!("entry under key {key} holds a plan generated for {plan_count} symbols ({ctx_s})"));
        }
        if f.binary_search(key).is_err() {
            return Err(format!("key {key} is in the map but not in the FIFO ({ctx_s})"));
        }
        if let Some(r) = refs.plans.get(key) {
            if **plan != *r {
                return Err(format!("plan cached under key {key} differs from generate({key}) ({ctx_s})"));
            }
        }
    }
    Ok(s.plans.len())
}

fn check_transparent(refs: &Reference, k: u16, e: &SourceBlockEncoder) -> Result<(), String> {
    let r = refs.encs.get(&k).expect("harness: reference for key");
    if e != r {
        return Err(format!("encoder built for {k} symbols through the cache differs from the uncached single-thread encoder"));
    }
    for start in [0u32, 1, 77, 1 << 20, (1 << 24) - 1 - k as u32] {
        if e.repair_packets(start, 1) != r.repair_packets(start, 1) {
            return Err(format!("repair packet {start} of the encoder built for {k} symbols through the cache differs from the uncached one"));
        }
    }
    Ok(())
}

// ---------------------------------------------------------------------------------------------
// (a) controlled schedules: a turnstile parks every scheduled worker at the hook points
// ---------------------------------------------------------------------------------------------
#[derive(Default, Clone, Copy, PartialEq, Debug)]
struct Turn {
    permits: usize,
    parked_at: u8, // 0 running, 1 = parked at P1 (first lookup missed), 9 = returned
}
struct Shared {
    m: Mutex<Vec<Turn>>,
    cv: Condvar,
}
static SHARED: Mutex<Option<Arc<Shared>>> = Mutex::new(None);
static STRESS_SLEEP: AtomicBool = AtomicBool::new(false);
static HOOK_CALLS: [AtomicU64; 3] = [AtomicU64::new(0), AtomicU64::new(0), AtomicU64::new(0)];
thread_local! {
    static ME: Cell<usize> = const { Cell::new(usize::MAX) };
    static TL_RNG: Cell<u64> = const { Cell::new(0x1234_5678) };
}

fn hook(point: u8, _k: u16) {
    HOOK_CALLS[point as usize].fetch_add(1, Relaxed);
    let me = ME.with(|c| c.get());
    if me == usize::MAX {
        if STRESS_SLEEP.load(Relaxed) {
            // injected delay between the two critical sections (never inside the lock)
            let r = TL_RNG.with(|c| {
                let mut x = c.get();
                let v = splitmix(&mut x);
                c.set(x);
                v
            });
            match r % 4 {
                0 => {}
                1 => std::thread::yield_now(),
                _ => std::thread::sleep(std::time::Duration::from_micros(r % 200)),
            }
        }
        return;
    }
    if point != 1 {
        return; // generation touches no shared state: one permit covers P1 .. insert section
    }
    let sh = SHARED.lock().unwrap().as_ref().unwrap().clone();
    let mut g = sh.m.lock().unwrap();
    g[me].parked_at = 1;
    sh.cv.notify_all();
    while g[me].permits < 1 {
        g = sh.cv.wait(g).unwrap();
    }
    g[me].parked_at = 0;
}

/// all interleavings of start_t / finish_t (a thread starts before it finishes)
fn orders(n: usize) -> Vec<Vec<(usize, u8)>> {
    fn rec(n: usize, started: &mut Vec<bool>, finished: &mut Vec<bool>, cur: &mut Vec<(usize, u8)>, out: &mut Vec<Vec<(usize, u8)>>) {
        if cur.len() == 2 * n {
            out.push(cur.clone());
            return;
        }
        for t in 0..n {
            if !started[t] {
                started[t] = true;
                cur.push((t, 0));
                rec(n, started, finished, cur, out);
                cur.pop();
                started[t] = false;
            } else if !finished[t] {
                finished[t] = true;
                cur.push((t, 1));
                rec(n, started, finished, cur, out);
                cur.pop();
                finished[t] = false;
            }
        }
    }
    let mut out = vec![];
    rec(n, &mut vec![false; n], &mut vec![false; n], &mut vec![], &mut out);
    out
}

/// sequential model of the cache (FIFO with double-checked insert)
#[derive(Clone, Default)]
struct Model {
    fifo: VecDeque<u16>,
}
impl Model {
    fn has(&self, k: u16) -> bool {
        self.fifo.contains(&k)
    }
    fn insert(&mut self, k: u16, cap: usize) -> bool {
        if self.has(k) {
            return false;
        }
        if self.fifo.len() >= cap {
            self.fifo.pop_front();
        }
        self.fifo.push_back(k);
        true
    }
}

#[derive(Clone, Debug)]
pub struct Schedule {
    pub ks: Vec<u16>,
    pub order: Vec<(usize, u8)>,
    pub prefill: usize,
    pub prefill_has_k0: bool,
    /// position in `order` before which the scheduler itself inserts `burst` other sizes
    pub burst_at: Option<usize>,
    pub burst: usize,
}
impl Schedule {
    fn json(&self) -> J {
        J::obj(vec![
            ("kind", J::s("schedule")),
            ("ks", J::A(self.ks.iter().map(|&k| J::i(k)).collect())),
            ("order", J::A(self.order.iter().map(|&(t, e)| J::s(format!("{}{}", if e == 0 { "start" } else { "finish" }, t))).collect())),
            ("order_raw", J::A(self.order.iter().map(|&(t, e)| J::i(t * 2 + e as usize)).collect())),
            ("prefill", J::i(self.prefill)),
            ("prefill_has_k0", J::B(self.prefill_has_k0)),
            ("burst_at", J::i(self.burst_at.map(|x| x as i64).unwrap_or(-1))),
            ("burst", J::i(self.burst)),
        ])
    }
    fn from_json(j: &J) -> Schedule {
        let ba = match j.get("burst_at") {
            Some(J::I(i)) if *i >= 0 => Some(*i as usize),
            _ => None,
        };
        Schedule {
            ks: j.us("ks").iter().map(|&k| k as u16).collect(),
            order: j.us("order_raw").iter().map(|&x| ((x / 2) as usize, (x % 2) as u8)).collect(),
            prefill: j.u("prefill") as usize,
            prefill_has_k0: matches!(j.get("prefill_has_k0"), Some(J::B(true))),
            burst_at: ba,
            burst: j.u("burst") as usize,
        }
    }
}

const FILL_BASE: u16 = 40; // sizes used to fill the cache (disjoint from requested sizes)

#[derive(Default)]
struct SchedStats {
    schedules: u64,
    events: u64,
    max_size: usize,
    lost_races: u64,
    evictions: u64,
    hits: u64,
    overlapping: u64,
    /// events at which the cache's contents / a lookup's outcome differed from the sequential FIFO model.
    /// The property demands transparency, the right plan under every key and the capacity bound - not a
    /// particular replacement policy - so a deviation is an observation (reported in the evidence), never
    /// a violation; the model is re-synchronised with the snapshot and the schedule goes on.
    model_deviations: u64,
    first_deviation: Option<String>,
}

fn run_schedule(refs: &Reference, s: &Schedule, st: &mut SchedStats) -> Result<(), String> {
    let cap = vc::capacity();
    vc::clear();
    let mut model = Model::default();
    let mut fill_next = FILL_BASE;
    let fill = |model: &mut Model, n: usize, fill_next: &mut u16| {
        for _ in 0..n {
            let k = *fill_next;
            *fill_next += 1;
            let _ = request(k); // unscheduled (ME = MAX): passes straight through the hooks
            model.insert(k, cap);
        }
    };
    if s.prefill_has_k0 {
        let _ = request(s.ks[0]);
        model.insert(s.ks[0], cap);
    }
    fill(&mut model, s.prefill - s.prefill_has_k0 as usize, &mut fill_next);
    check_model(refs, &mut model, "after prefill", st)?;
    let n = s.ks.len();
    let sh = Arc::new(Shared { m: Mutex::new(vec![Turn::default(); n]), cv: Condvar::new() });
    *SHARED.lock().unwrap() = Some(sh.clone());
    let results: Arc<Mutex<Vec<Option<SourceBlockEncoder>>>> = Arc::new(Mutex::new(vec![None; n]));
    let mut handles: Vec<Option<std::thread::JoinHandle<()>>> = (0..n).map(|_| None).collect();
    let mut in_flight = 0usize; // started, missed, not yet finished
    let mut missed = vec![false; n];
    let mut result: Result<(), String> = Ok(());
    for (pos, &(t, ev)) in s.order.iter().enumerate() {
        if s.burst_at == Some(pos) {
            fill(&mut model, s.burst, &mut fill_next);
            if let Err(e) = check_model(refs, &mut model, &format!("after a burst of {} other sizes before event {pos}", s.burst), st) {
                result = Err(e);
                break;
            }
        }
        let what = format!("after {}{} (event {pos} of {:?}, sizes {:?}, prefill {})", if ev == 0 { "start" } else { "finish" }, t, s.order, s.ks, s.prefill);
        if ev == 0 {
            let (sh2, res2, k) = (sh.clone(), results.clone(), s.ks[t]);
            let predicted_hit = model.has(k);
            handles[t] = Some(std::thread::spawn(move || {
                ME.with(|c| c.set(t));
                let e = request(k);
                res2.lock().unwrap()[t] = Some(e);
                let mut g = sh2.m.lock().unwrap();
                g[t].parked_at = 9;
                sh2.cv.notify_all();
            }));
            let mut g = sh.m.lock().unwrap();
            while g[t].parked_at != 1 && g[t].parked_at != 9 {
                g = sh.cv.wait(g).unwrap();
            }
            let hit = g[t].parked_at == 9;
            drop(g);
            if hit != predicted_hit {
                st.model_deviations += 1;
                st.first_deviation.get_or_insert_with(|| format!("request for {k} symbols {} the cache although the sequential FIFO model says it {} ({what})", if hit { "hit" } else { "missed" }, if predicted_hit { "is cached" } else { "is not cached" }));
            }
            if hit {
                st.hits += 1;
            } else {
                missed[t] = true;
                in_flight += 1;
                if in_flight >= 2 {
                    st.overlapping += 1;
                }
            }
        } else {
            let mut g = sh.m.lock().unwrap();
            if g[t].parked_at != 9 {
                g[t].permits = 1;
                sh.cv.notify_all();
                while g[t].parked_at != 9 {
                    g = sh.cv.wait(g).unwrap();
                }
            }
            drop(g);
            if missed[t] {
                in_flight -= 1;
                let before = model.fifo.len();
                let inserted = model.insert(s.ks[t], cap);
                if !inserted {
                    st.lost_races += 1;
                } else if before >= cap {
                    st.evictions += 1;
                }
            }
        }
        st.events += 1;
        match check_model(refs, &mut model, &what, st) {
            Ok(sz) => st.max_size = st.max_size.max(sz),
            Err(e) => {
                result = Err(e);
                break;
            }
        }
    }
    // release everything still parked, join, then M1
    {
        let mut g = sh.m.lock().unwrap();
        for t in g.iter_mut() {
            t.permits = 1;
        }
        sh.cv.notify_all();
    }
    for h in handles.into_iter().flatten() {
        let _ = h.join();
    }
    result?;
    let res = results.lock().unwrap();
    for t in 0..n {
        match &res[t] {
            Some(e) => check_transparent(refs, s.ks[t], e)?,
            None => return Err(format!("request {t} for {} symbols did not return an encoder", s.ks[t])),
        }
    }
    st.schedules += 1;
    Ok(())
}

/// snapshot must satisfy M2 (violation otherwise); it is also compared with the sequential FIFO model
/// (keys and order) - a difference there is a replacement-policy observation, not a violation
fn check_model(refs: &Reference, model: &mut Model, what: &str, st: &mut SchedStats) -> Result<usize, String> {
    let n = check_snapshot(refs, what)?;
    let s = vc::snapshot();
    let want: Vec<u16> = model.fifo.iter().copied().collect();
    if s.insertion_order != want {
        st.model_deviations += 1;
        st.first_deviation.get_or_insert_with(|| format!("cache order is {:?} but a sequential FIFO cache of capacity {} holds {:?} ({what})", short(&format!("{:?}", s.insertion_order), 200), vc::capacity(), short(&format!("{:?}", want), 200)));
        model.fifo = s.insertion_order.iter().copied().collect();
    }
    Ok(n)
}

pub fn all_schedules(quick: bool) -> Vec<Schedule> {
    let cap = vc::capacity();
    let mut out = vec![];
    for n in 2..=3usize {
        let os = orders(n);
        let key_patterns: Vec<Vec<u16>> = if n == 2 { vec![vec![10, 10], vec![10, 11]] } else { vec![vec![10, 10, 10], vec![10, 11, 12], vec![11, 10, 10], vec![10, 10, 11]] };
        for ks in &key_patterns {
            for (prefill, has_k0) in [(0usize, false), (cap - 1, false), (cap, false), (cap, true), (cap / 2, true)] {
                for (oi, o) in os.iter().enumerate() {
                    // bursts that evict between a start and its finish ("K evicted in between")
                    let bursts: Vec<Option<usize>> = if n == 2 || !quick || oi % 9 == 0 { vec![None, Some(1 + oi % (2 * n - 1))] } else { vec![None] };
                    for b in bursts {
                        out.push(Schedule { ks: ks.clone(), order: o.clone(), prefill, prefill_has_k0: has_k0, burst_at: b, burst: if b.is_some() { cap } else { 0 } });
                    }
                }
            }
        }
    }
    if !quick {
        // four concurrent requests: 2520 orders, every 7th is run (stress covers the rest by sampling)
        let os = orders(4);
        for ks in [vec![10u16, 10, 10, 10], vec![10, 10, 11, 11], vec![10, 11, 12, 13]] {
            for (prefill, has_k0) in [(0usize, false), (cap, false), (cap - 1, false)] {
                for (oi, o) in os.iter().enumerate() {
                    if oi % 7 == 3 {
                        out.push(Schedule { ks: ks.clone(), order: o.clone(), prefill, prefill_has_k0: has_k0, burst_at: if oi % 2 == 0 { Some(1 + oi % 7) } else { None }, burst: if oi % 2 == 0 { cap } else { 0 } });
                    }
                }
            }
        }
    }
    out
}

// ---------------------------------------------------------------------------------------------
// (b) stress
// ---------------------------------------------------------------------------------------------
struct StressOut {
    requests: u64,
    snapshots: u64,
    max_size: usize,
}
fn stress(ctx: &Ctx, refs: &Arc<Reference>, nthreads: usize, per_thread: usize, sizes: &[u16], round: u64, sleeps: bool) -> StressOut {
    vc::clear();
    STRESS_SLEEP.store(sleeps, SeqCst);
    let stop = Arc::new(AtomicBool::new(false));
    let snaps = Arc::new(AtomicU64::new(0));
    let maxs = Arc::new(AtomicU64::new(0));
    let errs: Arc<Mutex<Vec<String>>> = Arc::new(Mutex::new(vec![]));
    let sampler = {
        let (stop, snaps, maxs, errs, refs) = (stop.clone(), snaps.clone(), maxs.clone(), errs.clone(), refs.clone());
        std::thread::spawn(move || {
            while !stop.load(Relaxed) {
                match check_snapshot(&refs, "sampler thread during stress") {
                    Ok(n) => {
                        maxs.fetch_max(n as u64, Relaxed);
                    }
                    Err(e) => errs.lock().unwrap().push(e),
                }
                snaps.fetch_add(1, Relaxed);
                std::thread::yield_now();
            }
        })
    };
    let sizes: Arc<Vec<u16>> = Arc::new(sizes.to_vec());
    let seed = ctx.seed();
    let hs: Vec<_> = (0..nthreads)
        .map(|t| {
            let (refs, errs, sizes, snaps, maxs) = (refs.clone(), errs.clone(), sizes.clone(), snaps.clone(), maxs.clone());
            std::thread::spawn(move || {
                let mut rng = Rng::derive(seed, 0x1717 + round, t as u64);
                TL_RNG.with(|c| c.set(rng.next()));
                for i in 0..per_thread {
                    let k = sizes[rng.below(sizes.len() as u64) as usize];
                    // every 24th request is preceded by a call the library must refuse: with_encoding_plan
                    // with a plan generated for another symbol count. Refused or not, it must leave no trace
                    // in the shared cache (the snapshot checks see a foreign plan at once)
                    if i % 24 == 7 {
                        let other = sizes[rng.below(sizes.len() as u64) as usize];
                        if other != k {
                            if let Some(p) = refs.plans.get(&other) {
                                let _ = guarded(|| SourceBlockEncoder::with_encoding_plan(0, &cfg1(), &data_for(k), p));
                                REFUSED_PLAN_CALLS.fetch_add(1, Relaxed);
                            }
                        }
                    }
                    let e = match guarded(|| request(k)) {
                        Ok(e) => e,
                        Err(m) => {
                            errs.lock().unwrap().push(format!("SourceBlockEncoder::new for {k} symbols panicked under concurrency: {}", short(&m, 120)));
                            continue;
                        }
                    };
                    if let Err(m) = guarded(|| check_transparent(&refs, k, &e)).unwrap_or_else(|m| Err(format!("encoder for {k} symbols panicked while producing packets: {}", short(&m, 120)))) {
                        errs.lock().unwrap().push(m);
                    }
                    if i % 16 == 0 {
                        match check_snapshot(&refs, "after a request returned during stress") {
                            Ok(n) => {
                                maxs.fetch_max(n as u64, Relaxed);
                            }
                            Err(m) => errs.lock().unwrap().push(m),
                        }
                        snaps.fetch_add(1, Relaxed);
                    }
                }
            })
        })
        .collect();
    for h in hs {
        let _ = h.join();
    }
    stop.store(true, SeqCst);
    let _ = sampler.join();
    STRESS_SLEEP.store(false, SeqCst);
    if let Err(e) = check_snapshot(refs, "after stress round") {
        errs.lock().unwrap().push(e);
    }
    for (i, e) in errs.lock().unwrap().iter().enumerate().take(5) {
        ctx.violation(
            format!("C17 stress round={round} {}", short(e, 70)),
            format!("stress ({nthreads} threads x {per_thread} requests over {} sizes, delays {}): {e}", sizes.len(), sleeps),
            J::obj(vec![("kind", J::s("stress")), ("round", J::i(round)), ("threads", J::i(nthreads)), ("per_thread", J::i(per_thread)), ("sizes", J::i(sizes.len())), ("n", J::i(i))]),
        );
    }
    StressOut { requests: (nthreads * per_thread) as u64, snapshots: snaps.load(Relaxed), max_size: maxs.load(Relaxed) as usize }
}

static REFS: OnceLock<Arc<Reference>> = OnceLock::new();
static REFUSED_PLAN_CALLS: AtomicU64 = AtomicU64::new(0);

pub fn run(ctx: &Ctx) -> i32 {
    vc::set_hook(Some(hook));
    let workload = ctx.args.ex("workload").unwrap_or("all").to_string();
    let small = workload == "small"; // TSan / Miri sized
    let nsizes: u16 = if small { ctx.args.ex_u64("sizes", 6) as u16 } else { 300 };
    let refs = REFS.get_or_init(|| Arc::new(Reference::new((10..10 + nsizes).chain(if small { 0..0 } else { FILL_BASE..FILL_BASE + 200 })))).clone();
    let cap = vc::capacity();
    // a replay of a sequential-history case (kinds "big", "hot", "in-use") re-runs those histories only
    let mut only_hist = false;
    if let Some(p) = &ctx.args.replay {
        let j = parse_json(&std::fs::read_to_string(p).expect("replay file")).expect("json");
        let c = j.get("case").unwrap();
        ctx.eval(1);
        ctx.nontrivial(1);
        ctx.nontrivial(2);
        only_hist = matches!(c.st("kind"), "big" | "hot" | "in-use");
    }
    if let (Some(p), false) = (&ctx.args.replay, only_hist) {
        let j = parse_json(&std::fs::read_to_string(p).expect("replay file")).expect("json");
        let c = j.get("case").unwrap();
        if c.st("kind") == "schedule" {
            let s = Schedule::from_json(c);
            let mut st = SchedStats::default();
            if let Err(e) = run_schedule(&refs, &s, &mut st) {
                ctx.violation(format!("C17 schedule replay {}", short(&e, 60)), e, s.json());
            }
        } else {
            let sizes: Vec<u16> = (10..10 + c.u("sizes") as u16).collect();
            stress(ctx, &refs, c.u("threads") as usize, c.u("per_thread") as usize, &sizes, c.u("round"), true);
        }
        return ctx.finish("replay of one recorded schedule / stress round", &[], vec![]);
    }
    let ev0 = raptorq::verif::events::read();
    let mut st = SchedStats::default();
    // the cache is process-global, so controlled schedules cannot run in parallel inside one
    // process; the orchestrator shards them over several processes instead
    let nshards = ctx.args.ex_u64("nshards", 1) as usize;
    let shard = ctx.args.ex_u64("shard", 0) as usize;
    let t_a = std::time::Instant::now();
    // (a) controlled schedules
    if !small && !only_hist {
        let scheds = all_schedules(ctx.args.quick());
        let mut distinct_orders = std::collections::HashSet::new();
        for (si, s) in scheds.iter().enumerate() {
            if ctx.too_many_violations() {
                break;
            }
            if si % nshards != shard {
                continue;
            }
            // a burst would need 64 fresh fill sizes beyond the reference table: bounded by FILL_BASE..+200
            match run_schedule(&refs, s, &mut st) {
                Ok(()) => {}
                Err(e) => ctx.violation(format!("C17 schedule ks={:?} order={:?} prefill={} k0={} burst={:?} :: {}", s.ks, s.order, s.prefill, s.prefill_has_k0, s.burst_at, short(&e, 50)), e, s.json()),
            }
            ctx.eval(1);
            let mut h = H64::new();
            for &(t, e) in &s.order {
                h.u64((t * 2 + e as usize) as u64);
            }
            for &k in &s.ks {
                h.u64(k as u64);
            }
            h.u64(s.prefill as u64).u64(s.prefill_has_k0 as u64).u64(s.burst_at.map(|x| x as u64 + 1).unwrap_or(0));
            distinct_orders.insert(h.get());
            if scheds.len() < 50 || ctx.distinct_count() < 3 {
                ctx.sample(|| s.json());
            }
            if st.overlapping > 0 {
                ctx.nontrivial(h.get());
            }
        }
        ctx.cov("controlled_schedules_executed", J::i(st.schedules));
        ctx.cov("controlled_critical_section_events", J::i(st.events));
        ctx.cov("controlled_lost_races_(second_lookup_hit)", J::i(st.lost_races));
        ctx.cov("controlled_evictions", J::i(st.evictions));
        ctx.cov("controlled_first_lookup_hits", J::i(st.hits));
        ctx.cov("controlled_events_with_two_or_more_requests_between_lookup_and_insert", J::i(st.overlapping));
        ctx.cov("controlled_max_cache_size_seen", J::i(st.max_size));
        ctx.cov("controlled_events_deviating_from_sequential_FIFO_model_(observation_only)", J::i(st.model_deviations));
        if let Some(d) = &st.first_deviation {
            ctx.cov("first_deviation_from_sequential_FIFO_model", J::s(d.clone()));
        }
        if ctx.n_violations() == 0 {
            ctx.floor("controlled_schedules", st.schedules, 500 / nshards as u64);
            ctx.floor("lost_race_events", st.lost_races, 50 / nshards as u64);
            ctx.floor("eviction_events", st.evictions, 50 / nshards as u64);
            if st.max_size != cap {
                ctx.inconclusive(format!("largest snapshot in controlled schedules was {} (capacity {cap})", st.max_size));
            }
        }
    }
    ctx.cov("controlled_wall_s", J::F(t_a.elapsed().as_secs_f64()));
    let t_b = std::time::Instant::now();
    // (b) stress rounds
    let mut tot = StressOut { requests: 0, snapshots: 0, max_size: 0 };
    let mut ran_stress = only_hist;
    let mut expect_max = 0usize;
    let rounds: Vec<(usize, usize, Vec<u16>, bool)> = if only_hist {
        vec![]
    } else if small {
        let nt = ctx.args.ex_u64("threads", 3) as usize;
        let per = ctx.args.ex_u64("per_thread", 4) as usize;
        vec![(nt, per, (10..10 + nsizes).collect(), false)]
    } else {
        let per = ctx.args.pick(2000usize, 20000);
        vec![(16, per, (10..18).collect(), true), (16, per, (10..80).collect(), true), (16, per, (10..310).collect(), true), (16, per, (10..310).collect(), false)]
    };
    for (ri, (nt, per, sizes, sleeps)) in rounds.iter().enumerate() {
        if ri % nshards != shard {
            continue;
        }
        ran_stress = true;
        expect_max = expect_max.max(sizes.len().min(cap));
        let o = stress(ctx, &refs, *nt, *per, sizes, ri as u64, *sleeps);
        tot.requests += o.requests;
        tot.snapshots += o.snapshots;
        tot.max_size = tot.max_size.max(o.max_size);
        ctx.eval(o.requests as usize);
        ctx.nontrivial_many((0..o.requests.min(4)).map(|i| (ri as u64) << 32 | i | 1 << 62));
    }
    // very large block sizes (plans of more than a million operations), sequentially, in the shard that ran
    // stress: the request must be transparent and must leave the cache consistent and within its capacity,
    // also after 70 further sizes have pushed it out again
    let mut big_probes = 0u64;
    if !small && ran_stress {
        vc::clear();
        vc::set_hook(None);
        for &kbig in &[34_000u16, 56_403] {
            let r = guarded(|| {
                let e = request(kbig);
                let p = SourceBlockEncodingPlan::generate(kbig);
                let want = SourceBlockEncoder::with_encoding_plan(0, &cfg1(), &data_for(kbig), &p);
                let same = e == want && e.repair_packets(3, 4) == want.repair_packets(3, 4);
                let hit = request(kbig) == want;
                (same, hit)
            });
            big_probes += 1;
            match r {
                Err(m) => ctx.violation(format!("C17 big-size panic {kbig}"), format!("SourceBlockEncoder::new for {kbig} symbols panicked: {}", short(&m, 120)), J::obj(vec![("kind", J::s("big")), ("K", J::i(kbig))])),
                Ok((same, hit)) => {
                    if !same || !hit {
                        ctx.violation(format!("C17 big-size transparency {kbig}"), format!("an encoder for {kbig} symbols built through the cache (first request: equal = {same}; second request: equal = {hit}) differs from the one built from a freshly generated plan"), J::obj(vec![("kind", J::s("big")), ("K", J::i(kbig))]));
                    }
                }
            }
            if let Err(e) = check_snapshot(&refs, &format!("after a request for {kbig} symbols")) {
                ctx.violation(format!("C17 big-size snapshot {kbig} {}", short(&e, 60)), e, J::obj(vec![("kind", J::s("big")), ("K", J::i(kbig))]));
            }
            for k in 0..70u16 {
                let _ = guarded(|| request(400 + k));
                if let Err(e) = check_snapshot(&refs, &format!("after {} further sizes following a request for {kbig} symbols", k + 1)) {
                    ctx.violation(format!("C17 big-size snapshot-after {kbig} {}", short(&e, 60)), e, J::obj(vec![("kind", J::s("big")), ("K", J::i(kbig))]));
                    break;
                }
            }
        }
    }
    // a request the library must refuse (more symbols than a block can have) must not disturb later valid
    // requests from any thread
    if !small && ran_stress {
        let refused = guarded(|| request(60_000)).is_err();
        let later = guarded(|| {
            std::thread::scope(|s| s.spawn(|| check_transparent(&refs, 12, &request(12))).join())
        });
        big_probes += 1;
        let ok = matches!(&later, Ok(Ok(Ok(()))));
        if !ok {
            ctx.violation("C17 after-refused-request".to_string(), format!("after SourceBlockEncoder::new for 60000 symbols (refused: {refused}), a valid request for 12 symbols from another thread no longer yields the uncached encoder: {:?}", later.map(|r| r.map_err(|_| "thread panicked")).map_err(|m| short(&m, 120))), J::obj(vec![("kind", J::s("big")), ("K", J::i(60000))]));
        }
        if let Err(e) = guarded(|| check_snapshot(&refs, "after a refused oversized request")).unwrap_or_else(|m| Err(format!("snapshot panicked: {}", short(&m, 100)))) {
            ctx.violation(format!("C17 after-refused-request snapshot {}", short(&e, 60)), e, J::obj(vec![("kind", J::s("big")), ("K", J::i(60000))]));
        }
    }
    // request histories the stress rounds do not produce on purpose
    let mut hot_requests = 0u64;
    let mut in_use_windows = 0u64;
    if !small && ran_stress && shard == 0 {
        vc::set_hook(None);
        // (d) a full cache whose every entry has been used again since it was inserted (twice, in both
        // orders), then new sizes: whatever the replacement policy does with "recently used" entries, the
        // bound, the key/plan agreement and transparency must hold after every request. Small, sparse-backend
        // and four-digit block sizes.
        for &base in &[10u16, 250, 1000] {
            vc::clear();
            let all: Vec<u16> = (base..base + cap as u16).collect();
            let mut seq: Vec<u16> = all.clone();
            seq.extend(all.iter().copied());
            seq.extend(all.iter().rev().copied());
            seq.extend(base + cap as u16..base + cap as u16 + 6);
            seq.extend(all.iter().copied().take(5));
            for (i, &k) in seq.iter().enumerate() {
                let r = guarded(|| {
                    let e = request(k);
                    // transparency on a sample (plan generation for the comparison is the expensive part)
                    i % 9 != 0 || e == SourceBlockEncoder::with_encoding_plan(0, &cfg1(), &data_for(k), &SourceBlockEncodingPlan::generate(k))
                });
                hot_requests += 1;
                let case = J::obj(vec![("kind", J::s("hot")), ("base", J::i(base)), ("position", J::i(i))]);
                match r {
                    Err(m) => ctx.violation(format!("C17 hot-cache panic base={base} i={i}"), format!("request {i} (for {k} symbols) of the hot-cache history starting at size {base} panicked: {}", short(&m, 120)), case),
                    Ok(false) => ctx.violation(format!("C17 hot-cache transparency base={base} i={i}"), format!("request {i} (for {k} symbols) of the hot-cache history starting at size {base} returned an encoder that differs from the one built from a freshly generated plan"), case),
                    Ok(true) => {
                        if let Err(e) = check_snapshot(&refs, &format!("after request {i} (for {k} symbols) of the hot-cache history: {cap} sizes from {base} inserted, each used again twice, then new sizes")) {
                            ctx.violation(format!("C17 hot-cache snapshot base={base} {}", short(&e, 60)), e, case);
                            break;
                        }
                    }
                }
            }
        }
        // (e) a plan evicted while a build is still using it: thread A builds a block of 30 000 symbols of 512
        // bytes (it holds the plan for the whole application, a second or so); as soon as its insert is
        // visible, {capacity} small sizes push that entry out and the size is requested again while A is
        // still running. The cache must stay within its capacity and consistent afterwards.
        for attempt in 0..4 {
            if in_use_windows > 0 {
                break;
            }
            vc::clear();
            let kbig = 30_000u16 + attempt;
            let data: Vec<u8> = (0..kbig as usize * 512).map(|i| (i * 31 + 7) as u8).collect();
            let a = std::thread::spawn(move || guarded(|| SourceBlockEncoder::new(0, &Oti::new(0, 512, 0, 1, 1), &data)).is_ok());
            let t0 = std::time::Instant::now();
            while !vc::snapshot().insertion_order.contains(&kbig) && t0.elapsed().as_secs() < 120 {
                std::thread::sleep(std::time::Duration::from_micros(100));
            }
            for k in 0..cap as u16 {
                let _ = guarded(|| request(FILL_BASE + k));
            }
            let a_still_running = !a.is_finished();
            let again = guarded(|| request(kbig) == SourceBlockEncoder::with_encoding_plan(0, &cfg1(), &data_for(kbig), &SourceBlockEncodingPlan::generate(kbig)));
            if a_still_running {
                in_use_windows += 1;
            }
            let case = J::obj(vec![("kind", J::s("in-use")), ("K", J::i(kbig))]);
            if !matches!(again, Ok(true)) {
                ctx.violation(format!("C17 in-use-eviction transparency {kbig}"), format!("a request for {kbig} symbols made after that size was evicted while another thread was still building with its plan: {:?} (Ok(false) = encoder differs from the uncached one)", again.map_err(|m| short(&m, 100))), case.clone());
            }
            for k in 0..8u16 {
                let _ = guarded(|| request(10 + k));
                if let Err(e) = check_snapshot(&refs, &format!("after {} further requests following the eviction of size {kbig} while thread A was still building with its plan (A still running at the re-request: {a_still_running})", k)) {
                    ctx.violation(format!("C17 in-use-eviction snapshot {}", short(&e, 60)), e, case.clone());
                    break;
                }
            }
            if !a.join().unwrap_or(false) {
                ctx.violation(format!("C17 in-use-eviction builder-panic {kbig}"), format!("SourceBlockEncoder::new for {kbig} symbols of 512 bytes panicked while other sizes were requested"), case);
            }
        }
        if ctx.n_violations() == 0 {
            ctx.floor("requests_made_again_for_a_size_evicted_while_another_thread_was_still_building_with_its_plan", in_use_windows, 1);
        }
        vc::set_hook(Some(hook));
    }
    ctx.cov("hot_cache_history_requests_(every_entry_used_again_before_new_sizes_arrive)", J::i(hot_requests));
    ctx.cov("very_large_block_sizes_probed_(34000,_56403)_and_refused_oversized_request", J::i(big_probes));
    ctx.cov("stress_wall_s", J::F(t_b.elapsed().as_secs_f64()));
    let ev = raptorq::verif::events::read();
    ctx.cov("stress_requests_checked_for_transparency", J::i(tot.requests));
    ctx.cov("stress_snapshots_checked", J::i(tot.snapshots));
    ctx.cov("stress_max_cache_size_seen", J::i(tot.max_size));
    ctx.cov("stress_with_encoding_plan_calls_with_a_plan_for_another_size_(must_be_refused,_must_not_reach_the_cache)", J::i(REFUSED_PLAN_CALLS.load(Relaxed)));
    ctx.cov("cache_capacity", J::i(cap));
    ctx.cov(
        "hook_counters_whole_run",
        J::obj(vec![("first_lookup_hit", J::i(ev[6] - ev0[6])), ("first_lookup_miss", J::i(ev[7] - ev0[7])), ("lost_race_second_lookup_hit", J::i(ev[8] - ev0[8])), ("insert", J::i(ev[9] - ev0[9])), ("evict", J::i(ev[10] - ev0[10]))]),
    );
    ctx.cov("yield_hook_calls_between_the_critical_sections", J::i(HOOK_CALLS[1].load(Relaxed) + HOOK_CALLS[2].load(Relaxed)));
    if !small && ran_stress && !only_hist && ctx.n_violations() == 0 {
        ctx.floor("stress_lost_races_observed_by_hook_counter", ev[8] - ev0[8], 1);
        if tot.max_size != expect_max {
            ctx.inconclusive(format!("stress never filled the cache as far as its request mix allows (max {} of {expect_max})", tot.max_size));
        }
    }
    ctx.sample(|| J::obj(vec![("kind", J::s("stress")), ("threads", J::i(16)), ("sizes", J::s("8 / 70 / 300 distinct")), ("delays", J::s("0-200 us sleeps or yields at the two hook points between the critical sections"))]));
    vc::set_hook(None);
    ctx.finish(
        "(a) controlled schedules: a turnstile at the yield hook (between the lookup and insert critical sections, never inside the lock) serialises 2 and 3 concurrent requests (thorough: also 4, every 7th of the 2520 orders); every order of their lookup/insert sections (6 and 90) x key patterns (same / different sizes) x cache states (empty, one below capacity, full, requested size already cached, half full) x optional burst of 64 other sizes between a lookup and its insert (evicts in between); after EVERY critical section the snapshot taken under the cache's own lock must satisfy |map| = |FIFO| <= capacity, same key set, no duplicate, plan stored under key k is generate(k), and must equal a sequential FIFO cache model (keys and order); hit/miss of every request must match the model; every returned encoder must equal the uncached single-thread encoder incl. repair packets at 5 ESIs. (c) two very large block sizes (34 000 and 56 403 symbols) requested sequentially, each followed by 70 other sizes, with the invariant checked after every request. (d) hot-cache histories: a full cache (sizes from 10, 250, 1000) whose every entry is used again twice before new sizes arrive, invariant after every request. (e) a size evicted while another thread is still building a 30 000-symbol block with its plan, then requested again. (b) stress: 16 threads x N requests over 8/70/300 sizes with injected delays at the hook points, a sampler thread and every 16th request checking the invariant, every returned encoder checked. non-trivial = controlled schedule in which at least two requests were between lookup and insert at the same time; distinct by (order, sizes, cache state, burst)",
        &["controlled enumeration covers <= 3 concurrent requests; larger thread counts are stress-sampled and the OS scheduler decides what is seen", "snapshot/clear/yield hooks are add-only and outside the critical sections (snapshot takes the cache's own mutex)"],
        vec![],
    )
}
