//! Helpers shared by the codec-level monitors: shapes, data, RFC 4.4.1.2 layout oracle.
#![allow(non_snake_case)]
use crate::common::{Rng, J};
use raptorq::{EncodingPacket, ObjectTransmissionInformation, PayloadId};

pub fn ceil_div(a: u128, b: u128) -> u128 {
    (a + b - 1) / b
}

/// Partition[I, J] of RFC 6330 4.4.1.2 in wide integers: (IL, IS, JL, JS)
pub fn partition(i: u128, j: u128) -> (u128, u128, u128, u128) {
    let il = ceil_div(i, j);
    let is = i / j;
    let jl = i - is * j;
    (il, is, jl, j - jl)
}

#[derive(Clone, Copy, Debug, PartialEq, Eq, Hash)]
pub struct Shape {
    pub F: usize,
    pub T: usize,
    pub Z: usize,
    pub N: usize,
    pub Al: usize,
}

impl Shape {
    pub fn kt(&self) -> usize {
        (self.F + self.T - 1) / self.T
    }
    pub fn cfg(&self) -> ObjectTransmissionInformation {
        ObjectTransmissionInformation::new(self.F as u64, self.T as u16, self.Z as u8, self.N as u16, self.Al as u8)
    }
    /// K of every block, in block order
    pub fn block_ks(&self) -> Vec<usize> {
        let (kl, ks, zl, _zs) = partition(self.kt() as u128, self.Z as u128);
        (0..self.Z).map(|z| if (z as u128) < zl { kl as usize } else { ks as usize }).collect()
    }
    pub fn padding(&self) -> usize {
        self.kt() * self.T - self.F
    }
    pub fn nontrivial(&self) -> bool {
        self.Z > 1 || self.N > 1 || self.padding() > 0
    }
    pub fn json(&self) -> J {
        J::obj(vec![
            ("F", J::i(self.F)),
            ("T", J::i(self.T)),
            ("Z", J::i(self.Z)),
            ("N", J::i(self.N)),
            ("Al", J::i(self.Al)),
        ])
    }
    pub fn from_json(j: &J) -> Shape {
        Shape { F: j.u("F") as usize, T: j.u("T") as usize, Z: j.u("Z") as usize, N: j.u("N") as usize, Al: j.u("Al") as usize }
    }
    pub fn hash(&self) -> u64 {
        let mut h = crate::common::H64::new();
        h.u64(self.F as u64).u64(self.T as u64).u64(self.Z as u64).u64(self.N as u64).u64(self.Al as u64);
        h.get()
    }
}

/// Stratified generator of valid configurations with at most `max_kt` symbols in total and symbol
/// size at most `max_t` bytes.
pub fn gen_shape(rng: &mut Rng, max_kt: usize, max_t: usize, max_z: usize) -> Shape {
    // the alignment parameter is any value 1..=255 (powers of two are merely what the defaults produce)
    let Al = loop {
        let a = *rng.pick(&[1usize, 1, 2, 4, 8, 8, 3, 5, 6, 7, 10, 12, 16, 24]);
        if a <= max_t.max(8) {
            break a;
        }
    };
    let max_units = (max_t / Al).max(1);
    let units = match rng.below(4) {
        0 => rng.range(1, 4.min(max_units as u64)) as usize,
        1 => rng.range(1, 16.min(max_units as u64)) as usize,
        _ => rng.range(1, max_units as u64) as usize,
    };
    let T = Al * units;
    let N = match rng.below(4) {
        0 | 1 => 1,
        2 => rng.range(1, units as u64) as usize,
        _ => units.min(1 + rng.below(4) as usize),
    };
    let Kt = match rng.below(6) {
        0 => rng.range(1, 4.min(max_kt as u64)),
        1 => rng.range(1, 30.min(max_kt as u64)),
        2 => *rng.pick(&[9u64, 10, 11, 12, 13, 18, 19, 20, 21, 26, 27]).min(&(max_kt as u64)),
        _ => rng.range(1, max_kt as u64),
    } as usize;
    let Z = match rng.below(3) {
        0 => 1,
        _ => rng.range(1, (Kt.min(max_z)) as u64) as usize,
    };
    let pad = match rng.below(5) {
        0 => 0,
        1 => 1.min(T - 1),
        2 => T - 1,
        _ => rng.below(T as u64) as usize,
    };
    let F = Kt * T - pad;
    Shape { F, T, Z, N, Al }
}

pub fn make_data(rng: &mut Rng, len: usize) -> (Vec<u8>, &'static str) {
    match rng.below(8) {
        0 => (vec![0u8; len], "zero"),
        1 => (vec![0xFFu8; len], "ff"),
        2 => {
            let mut v = vec![0u8; len];
            let i = rng.below(len as u64) as usize;
            v[i] = 1 << rng.below(8);
            (v, "one-hot")
        }
        3 => ((0..len).map(|i| (i as u32).wrapping_mul(2654435761).rotate_left(7) as u8).collect(), "position-coded"),
        _ => (rng.bytes(len), "random"),
    }
}

/// position-coded pattern: a misplaced byte identifies where it came from
pub fn position_coded(len: usize) -> Vec<u8> {
    (0..len).map(|i| ((i as u32).wrapping_mul(2654435761) >> 13) as u8 ^ (i as u8)).collect()
}

/// RFC 6330 4.4.1.2: the source symbols of every block, written from the RFC text.
/// Returns per block the list of K symbols (each T bytes).
pub fn layout(data: &[u8], s: &Shape) -> Vec<Vec<Vec<u8>>> {
    let (F, T, Z, N, Al) = (s.F, s.T, s.Z, s.N, s.Al);
    assert_eq!(data.len(), F);
    let Kt = ceil_div(F as u128, T as u128);
    let (KL, KS, ZL, _ZS) = partition(Kt, Z as u128);
    let (TL, TS, NL, _NS) = partition((T / Al) as u128, N as u128);
    let mut out = vec![];
    let mut off = 0usize;
    for z in 0..Z {
        let K = if (z as u128) < ZL { KL } else { KS } as usize;
        let mut block = vec![0u8; K * T];
        for i in 0..K * T {
            if off + i < F {
                block[i] = data[off + i];
            }
        }
        off += K * T;
        let mut syms = vec![Vec::with_capacity(T); K];
        let mut p = 0usize;
        for j in 0..N {
            let w = (if (j as u128) < NL { TL } else { TS }) as usize * Al;
            for sym in syms.iter_mut() {
                sym.extend_from_slice(&block[p..p + w]);
                p += w;
            }
        }
        assert_eq!(p, K * T);
        out.push(syms);
    }
    out
}

/// The bytes of block z of the object, zero padded (what SourceBlockDecoder::decode must return)
pub fn block_bytes(data: &[u8], s: &Shape, z: usize) -> Vec<u8> {
    let ks = s.block_ks();
    let off: usize = ks[..z].iter().sum::<usize>() * s.T;
    let len = ks[z] * s.T;
    let mut b = vec![0u8; len];
    for i in 0..len {
        if off + i < data.len() {
            b[i] = data[off + i];
        }
    }
    b
}

pub fn pkt(sbn: u8, esi: u32, data: Vec<u8>) -> EncodingPacket {
    EncodingPacket::new(PayloadId::new(sbn, esi), data)
}

pub fn pid(p: &EncodingPacket) -> (u8, u32) {
    (p.payload_id().source_block_number(), p.payload_id().encoding_symbol_id())
}

/// digest of a packet list
pub fn digest_packets(ps: &[EncodingPacket]) -> u64 {
    let mut h = crate::common::H64::new();
    for p in ps {
        h.u64(p.payload_id().source_block_number() as u64).u64(p.payload_id().encoding_symbol_id() as u64).bytes(p.data());
    }
    h.get()
}

pub fn first_diff(a: &[u8], b: &[u8]) -> Option<usize> {
    if a.len() != b.len() {
        return Some(a.len().min(b.len()));
    }
    a.iter().zip(b.iter()).position(|(x, y)| x != y)
}
