//! One module per property: workload generator + monitor.
use crate::common::Ctx;

pub mod util;
pub mod c05;
pub mod c13;
pub mod c14;
pub mod c19;

pub fn run(ctx: &Ctx) -> Option<i32> {
    Some(match ctx.args.prop.as_str() {
        "C05" => c05::run(ctx),
        "C13" => c13::run(ctx),
        "C14" => c14::run(ctx),
        "C19" => c19::run(ctx),
        _ => return None,
    })
}
