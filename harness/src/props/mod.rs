//! One module per property: workload generator + monitor.
use crate::common::Ctx;

pub mod util;
pub mod c01;
pub mod c02;
pub mod c03;
pub mod c04;
pub mod c06;
pub mod c07;
pub mod c08;
pub mod c09;
pub mod certify;
pub mod c05;
pub mod c10;
#[cfg(feature = "full")]
pub mod c11;
#[cfg(feature = "full")]
pub mod c12;
pub mod c13;
pub mod c14;
pub mod c15;
#[cfg(feature = "full")]
pub mod c16;
#[cfg(feature = "full")]
pub mod c16walk;
#[cfg(feature = "full")]
pub mod c17;
pub mod c18;
pub mod c19;
#[cfg(feature = "full")]
pub mod kern;

pub fn run(ctx: &Ctx) -> Option<i32> {
    Some(match ctx.args.prop.as_str() {
        "C01" => c01::run(ctx),
        "C02" => c02::run(ctx),
        "C04" => c04::run(ctx),
        "C06" => c06::run(ctx),
        "C03" => c03::run(ctx),
        "C05" => c05::run(ctx),
        "C07" => c07::run(ctx),
        "C08" => c08::run(ctx),
        "C09" => c09::run(ctx),
        "C10" => c10::run(ctx),
        #[cfg(feature = "full")]
        "C11" => c11::run(ctx),
        #[cfg(feature = "full")]
        "C12" => c12::run(ctx),
        "C13" => c13::run(ctx),
        "C14" => c14::run(ctx),
        "C15" => c15::run(ctx),
        #[cfg(feature = "full")]
        "C16" => c16::run(ctx),
        #[cfg(feature = "full")]
        "C17" => c17::run(ctx),
        "C18" => c18::run(ctx),
        "C19" => c19::run(ctx),
        _ => return None,
    })
}
