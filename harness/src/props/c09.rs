//! C09 — the code is GF(256)-linear and acts independently on every byte column.
#![allow(non_snake_case)]
use crate::common::*;
use crate::refmodel::Gf;
use raptorq::{Decoder, Encoder, EncodingPacket, ObjectTransmissionInformation as Oti, SourceBlockEncoder, SourceBlockEncodingPlan};
use std::sync::atomic::{AtomicU64, Ordering::Relaxed};

fn gen_data(rng: &mut Rng, kind: u64, len: usize) -> Vec<u8> {
    match kind % 4 {
        0 => rng.bytes(len),
        1 => {
            let mut v = vec![0u8; len];
            let i = rng.below(len as u64) as usize;
            v[i] = 1 << rng.below(8);
            v
        }
        2 => vec![0xFF; len],
        _ => rng.bytes(len),
    }
}

fn esis(rng: &mut Rng, K: usize, n: usize) -> Vec<u32> {
    let mut v: Vec<u32> = (0..(K.min(6)) as u32).collect(); // some source ESIs
    v.extend((0..8u32).map(|i| K as u32 + i));
    while v.len() < n {
        v.push(rng.range(K as u64, (1 << 24) - 1) as u32);
    }
    v.push((1 << 24) - 1);
    v
}

fn packets(enc: &SourceBlockEncoder, K: usize, es: &[u32]) -> Vec<EncodingPacket> {
    let src = enc.source_packets();
    es.iter().map(|&e| if (e as usize) < K { src[e as usize].clone() } else { enc.repair_packets(e - K as u32, 1).pop().unwrap() }).collect()
}

fn run_case(ctx: &Ctx, gf: &Gf, K: usize, T: usize, seed: u64, route: u64, rel: &[AtomicU64; 4]) {
    crashlog::set_case_fields(&["K", "T", "data_seed", "route"]);
    crashlog::note(crashlog::CASE, &[K as u64, T as u64, seed, route]);
    let mut rng = Rng::new(seed);
    let a = gen_data(&mut rng, seed, K * T);
    let b = gen_data(&mut rng, seed / 4, K * T);
    let c = 2 + rng.below(254) as u8;
    let case = || J::obj(vec![("K", J::i(K)), ("T", J::i(T)), ("data_seed", J::i(seed)), ("route", J::i(route))]);
    let ab: Vec<u8> = a.iter().zip(b.iter()).map(|(x, y)| x ^ y).collect();
    let ca: Vec<u8> = a.iter().map(|&x| gf.m(c, x)).collect();
    let es = esis(&mut rng, K, ctx.args.pick(24, 40));
    let cfg = Oti::new((K * T) as u64, T as u16, 1, 1, 1);
    let build = |d: &[u8]| -> SourceBlockEncoder {
        match route % 2 {
            0 => SourceBlockEncoder::new(0, &cfg, d),
            _ => SourceBlockEncoder::with_encoding_plan(0, &cfg, d, &SourceBlockEncodingPlan::generate(K as u16)),
        }
    };
    let r = guarded(|| {
        let (ea, eb, eab, eca) = (build(&a), build(&b), build(&ab), build(&ca));
        (packets(&ea, K, &es), packets(&eb, K, &es), packets(&eab, K, &es), packets(&eca, K, &es))
    });
    let (pa, pb, pab, pca) = match r {
        Ok(x) => x,
        Err(m) => {
            ctx.violation(format!("C09 panic K={K} T={T}"), format!("K={K} T={T}: encoder panicked: {}", short(&m, 100)), case());
            return;
        }
    };
    let mut local = vec![];
    for (i, &e) in es.iter().enumerate() {
        // additivity
        let x: Vec<u8> = pa[i].data().iter().zip(pb[i].data().iter()).map(|(x, y)| x ^ y).collect();
        rel[0].fetch_add(1, Relaxed);
        if pab[i].data() != &x[..] {
            let k = pab[i].data().iter().zip(x.iter()).position(|(p, q)| p != q);
            ctx.violation(format!("C09 additivity K={K} T={T} esi={e}"), format!("K={K} T={T} ESI={e}: packet(A xor B) differs from packet(A) xor packet(B) at byte {k:?}"), case());
            return;
        }
        // scaling
        let y: Vec<u8> = pa[i].data().iter().map(|&v| gf.m(c, v)).collect();
        rel[1].fetch_add(1, Relaxed);
        if pca[i].data() != &y[..] {
            let k = pca[i].data().iter().zip(y.iter()).position(|(p, q)| p != q);
            ctx.violation(format!("C09 scaling K={K} T={T} esi={e}"), format!("K={K} T={T} ESI={e}: packet({c:#04x}*A) differs from {c:#04x}*packet(A) at byte {k:?}"), case());
            return;
        }
        if T >= 2 {
            local.push((K as u64) << 40 | (T as u64) << 24 | e as u64);
        }
    }
    // byte columns: byte j of the size-T packet = the size-1 packet of column j
    let ncols = ctx.args.pick(3usize, 8).min(T);
    let cfg1 = Oti::new(K as u64, 1, 1, 1, 1);
    for q in 0..ncols {
        let j = match q {
            0 => 0,
            1 => T - 1,
            _ => rng.below(T as u64) as usize,
        };
        let col: Vec<u8> = (0..K).map(|i| a[i * T + j]).collect();
        let r = guarded(|| packets(&SourceBlockEncoder::new(1, &cfg1, &col), K, &es));
        rel[2].fetch_add(es.len() as u64, Relaxed);
        match r {
            Err(m) => {
                ctx.violation(format!("C09 column-panic K={K}"), format!("K={K}: T=1 encoder panicked: {}", short(&m, 100)), case());
                return;
            }
            Ok(pc) => {
                for (i, &e) in es.iter().enumerate() {
                    if pc[i].data()[0] != pa[i].data()[j] {
                        ctx.violation(format!("C09 column K={K} T={T} esi={e} col={j}"), format!("K={K} T={T} ESI={e}: byte {j} of the packet is {:#04x} but encoding byte column {j} alone gives {:#04x}", pa[i].data()[j], pc[i].data()[0]), case());
                        return;
                    }
                }
            }
        }
    }
    // decoder side, for every case: (i) decode(packets(A) xor packets(B)) = A xor B, (ii) decoding
    // behaves identically for every symbol size: decoding byte column j alone (T = 1, same ESIs) gives
    // column j of the block decoded at T. Two source symbols are dropped so the solver runs.
    {
        let drop = 2.min(K - 1);
        let r = guarded(|| {
            let ea = build(&a);
            let eb = build(&b);
            let sa = ea.source_packets();
            let sb = eb.source_packets();
            let ra = ea.repair_packets(0, 6);
            let rb = eb.repair_packets(0, 6);
            let mut d = Decoder::new(cfg);
            let mut out = None;
            for (x, y) in sa.iter().zip(sb.iter()).skip(drop).chain(ra.iter().zip(rb.iter())) {
                let d2: Vec<u8> = x.data().iter().zip(y.data().iter()).map(|(p, q)| p ^ q).collect();
                if out.is_none() {
                    out = d.decode(EncodingPacket::new(x.payload_id().clone(), d2));
                }
            }
            // the same reception for A alone, at T and per column at T = 1
            let mut da = Decoder::new(cfg);
            let mut out_a = None;
            for x in sa.iter().skip(drop).chain(ra.iter()) {
                if out_a.is_none() {
                    out_a = da.decode(x.clone());
                }
            }
            let mut cols = vec![];
            for j in [0usize, T - 1, T / 2] {
                let mut dc = Decoder::new(cfg1);
                let mut oc = None;
                for x in sa.iter().skip(drop).chain(ra.iter()) {
                    if oc.is_none() {
                        oc = dc.decode(EncodingPacket::new(x.payload_id().clone(), vec![x.data()[j]]));
                    }
                }
                cols.push((j, oc));
            }
            (out, out_a, cols)
        });
        rel[3].fetch_add(1, Relaxed);
        match r {
            Err(m) => ctx.violation(format!("C09 decode-panic K={K} T={T}"), format!("K={K} T={T}: decoder panicked: {}", short(&m, 100)), case()),
            Ok((out, out_a, cols)) => {
                // None = rank deficiency of this particular set: not this property's concern
                if let Some(v) = &out {
                    if *v != ab {
                        ctx.violation(format!("C09 decode-linearity K={K} T={T}"), format!("K={K} T={T}: decoding packets(A) xor packets(B) does not give A xor B"), case());
                    }
                }
                if let Some(v) = &out_a {
                    if *v != a {
                        ctx.violation(format!("C09 decode K={K} T={T}"), format!("K={K} T={T}: decoding K-{drop} source + 6 repair packets of A does not give A"), case());
                    }
                }
                for (j, oc) in cols {
                    let want: Vec<u8> = (0..K).map(|i| a[i * T + j]).collect();
                    match (oc, &out_a) {
                        (Some(c), _) if c != want => {
                            ctx.violation(format!("C09 decode-column K={K} T={T} col={j}"), format!("K={K} T={T}: decoding byte column {j} alone (symbol size 1, same ESIs) gives {:02x?}..., the column of the source block is {:02x?}...", &c[..c.len().min(6)], &want[..want.len().min(6)]), case());
                            break;
                        }
                        (None, Some(_)) | (Some(_), None) => {
                            ctx.violation(format!("C09 decode-column-outcome K={K} T={T} col={j}"), format!("K={K} T={T}: the same reception decodes at one symbol size but not at the other (column {j} at T=1 vs the block at T={T})"), case());
                            break;
                        }
                        _ => {}
                    }
                }
            }
        }
    }
    ctx.nontrivial_many(local);
}

/// object level (multi-block, sub-blocks): Encoder is linear as well
fn run_object_case(ctx: &Ctx, seed: u64, idx: u64, rel: &[AtomicU64; 4]) {
    let mut rng = Rng::derive(seed, 0x0909, idx);
    let s = super::util::gen_shape(&mut rng, 80, 64, 5);
    let a = rng.bytes(s.F);
    let b = rng.bytes(s.F);
    let ab: Vec<u8> = a.iter().zip(b.iter()).map(|(x, y)| x ^ y).collect();
    let r = guarded(|| {
        let cfg = s.cfg();
        (Encoder::new(&a, cfg).get_encoded_packets(5), Encoder::new(&b, cfg).get_encoded_packets(5), Encoder::new(&ab, cfg).get_encoded_packets(5))
    });
    rel[0].fetch_add(1, Relaxed);
    let case = J::obj(vec![("object_case", J::i(idx)), ("seed", J::i(seed)), ("shape", s.json())]);
    match r {
        Err(m) => ctx.violation(format!("C09 object-panic idx={idx}"), format!("{:?}: encoder panicked: {}", s, short(&m, 100)), case),
        Ok((pa, pb, pab)) => {
            let ok = pa.len() == pab.len() && pa.iter().zip(pb.iter()).zip(pab.iter()).all(|((x, y), z)| x.payload_id() == z.payload_id() && x.data().iter().zip(y.data().iter()).map(|(p, q)| p ^ q).eq(z.data().iter().copied()));
            if !ok {
                ctx.violation(format!("C09 object-additivity idx={idx}"), format!("{:?}: Encoder packets for A xor B differ from packets(A) xor packets(B)", s), case);
            }
        }
    }
}

pub fn run(ctx: &Ctx) -> i32 {
    let gf = Gf::new();
    let rel: [AtomicU64; 4] = Default::default();
    if let Some(p) = &ctx.args.replay {
        let j = parse_json(&std::fs::read_to_string(p).expect("replay file")).expect("json");
        let c = j.get("case").unwrap();
        ctx.eval(1);
        if c.get("object_case").is_some() {
            run_object_case(ctx, c.u("seed"), c.u("object_case"), &rel);
        } else {
            run_case(ctx, &gf, c.u("K") as usize, c.u("T") as usize, c.u("data_seed"), c.u("route"), &rel);
        }
        ctx.nontrivial(1);
        ctx.nontrivial(2);
        return ctx.finish("replay of one recorded case", &[], vec![]);
    }
    let ks = [1usize, 9, 10, 11, 60, 250, 300, 1000];
    let mut ts: Vec<usize> = (1..=200).collect();
    ts.extend([255, 256, 257, 1023, 1024, 1025, 1280, 1316]);
    let mut cases = vec![];
    for (i, &T) in ts.iter().enumerate() {
        // every T with two block sizes (thorough: with every K up to 300)
        if ctx.args.quick() {
            cases.push((ks[i % 6], T));
            cases.push((ks[(i / 6 + 3) % 6], T));
            if T % 37 == 0 || T > 1000 {
                cases.push((1000, T));
            }
        } else {
            for &K in &ks {
                if K <= 300 || T % 7 == 0 || T > 250 {
                    cases.push((K, T));
                }
            }
        }
    }
    // very large symbols (the whole 16-bit range of T): intermediate-symbol slabs of several MiB
    for &(K, T) in &[(100usize, 40000usize), (10, 65535), (60, 65528), (300, 20000), (26, 32769), (101, 4096), (1000, 5000)] {
        if !ctx.args.quick() || K * T <= 6_000_000 {
            cases.push((K, T));
        }
    }
    // one block whose intermediate-symbol slab exceeds 16 MiB (thresholds on the slab size), data seed chosen
    // so that operand A is the constant 0xFF fill (kind 2): structured, non-zero symbols
    cases.push((300, 65504));
    par_for(cases.len(), |i| {
        if ctx.too_many_violations() {
            return;
        }
        let (K, T) = cases[i];
        let mut seed = splitmix(&mut (ctx.seed() ^ (i as u64) << 24 ^ 0x0909));
        if (K, T) == (300, 65504) {
            seed = (seed & !3) | 2;
        }
        run_case(ctx, &gf, K, T, seed, i as u64, &rel);
        ctx.eval(1);
        if i % 97 == 0 {
            ctx.sample(|| J::obj(vec![("K", J::i(K)), ("T", J::i(T)), ("relations", J::s("pk(A^B)=pk(A)^pk(B); pk(c*A)=c*pk(A); byte j = T=1 packet of column j; decode(pk(A)^pk(B))=A^B"))]));
        }
    });
    let nobj = ctx.args.pick(3000, 30000);
    par_for(nobj, |i| run_object_case(ctx, ctx.seed(), i as u64, &rel));
    ctx.eval(nobj);
    ctx.cov("symbol_sizes_covered", J::s("every T in 1..=200 and 255,256,257,1023,1024,1025,1280,1316, plus large symbols 4096..65535 (slabs of several MiB)"));
    ctx.cov("additivity_checks", J::i(rel[0].load(Relaxed)));
    ctx.cov("scaling_checks", J::i(rel[1].load(Relaxed)));
    ctx.cov("byte_column_checks", J::i(rel[2].load(Relaxed)));
    ctx.floor("decoder_linearity_checks", rel[3].load(Relaxed), 50);
    ctx.floor("relation_instances_T_ge_2", ctx.distinct_count() as u64, 5000);
    ctx.finish(
        "metamorphic relations on real encoder output: for K in {1,9,10,11,60,250,300,1000} x every symbol size T in 1..=200 and {255,256,257,1023,1024,1025,1280,1316} (every residue modulo the 8/16/32/64-byte kernel strides) x data pairs (random, one-hot, 0xFF) x a random scalar, for source ESIs, the first repair ESIs, ESIs uniform in [K,2^24) and 2^24-1, via new (cached plan) and via with_encoding_plan: packets(A xor B) = packets(A) xor packets(B); packets(c*A) = c*packets(A) (reference field); byte j of the size-T packet = the T=1 packet of byte column j; decode(packets(A) xor packets(B)) = A xor B and decoding byte column j alone at T=1 gives column j of the block decoded at T (same reception, two source symbols dropped); and additivity of Encoder on multi-block / sub-blocked objects. non-trivial = relation instance with T>=2; distinct by (K,T,ESI)",
        &["scalar multiplication by the harness's reference field"],
        vec![],
    )
}
