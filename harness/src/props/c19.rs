//! C19 — the configuration constructor enforces the RFC's parameter limits.
#![allow(non_snake_case)]
use crate::common::*;
use raptorq::ObjectTransmissionInformation as Oti;

const F_MAX: u128 = 942574504275;
const K_MAX: u128 = 56403;

fn oracle(F: u64, T: u16, Z: u8, Al: u8) -> bool {
    let (f, t, z, al) = (F as u128, T as u128, Z as u128, Al as u128);
    let kt = (f + t - 1) / t;
    f <= F_MAX && t % al == 0 && (kt + z - 1) / z <= K_MAX
}

fn gen(rng: &mut Rng) -> (u64, u16, u8, u16, u8) {
    let T: u16 = match rng.below(8) {
        0 => 1,
        1 => 2,
        2 => *rng.pick(&[255u16, 256, 257, 1024, 1280, 1316]),
        3 => 65535,
        4 => rng.range(65000, 65535) as u16,
        _ => rng.log_range(1, 65535) as u16,
    };
    let Z: u8 = match rng.below(6) {
        0 => 1,
        1 => 2,
        2 => 254,
        3 => 255,
        _ => rng.range(1, 255) as u8,
    };
    let Al: u8 = match rng.below(8) {
        0 | 1 => 1,
        2 => *rng.pick(&[2u8, 3, 4, 8, 255]),
        3 | 4 => {
            // a divisor of T
            let mut d = rng.range(1, 255.min(T as u64)) as u16;
            while T % d != 0 {
                d -= 1;
            }
            d as u8
        }
        _ => rng.range(1, 255) as u8,
    };
    let N: u16 = match rng.below(4) {
        0 => 1,
        1 => 0,
        2 => 65535,
        _ => rng.next() as u16,
    };
    let t = T as u128;
    let z = Z as u128;
    // boundaries: the largest F accepted by the symbols-per-block limit is K_MAX*Z*T
    let lim_k = K_MAX * z * t;
    let F: u128 = match rng.below(16) {
        // the far end of the u64 domain (every sum / product / rounding step of the check must survive it)
        12 => u64::MAX as u128 - rng.below(2 * (t * z) as u64 + 2) as u128,
        13 => (1u128 << rng.range(41, 64)).saturating_sub(rng.below(3) as u128).min(u64::MAX as u128),
        14 => (u64::MAX as u128 + 1 - t * z * rng.range(1, 4) as u128) + rng.below(3) as u128 - 1,
        15 => rng.log_range(1 << 40, u64::MAX) as u128,
        0 => lim_k.saturating_sub(rng.below(3) as u128),
        1 => lim_k + 1 + rng.below(3) as u128,
        2 => F_MAX - rng.below(3) as u128,
        3 => F_MAX + 1 + rng.below(3) as u128,
        4 => (1u128 << 32) * rng.range(1, 200) as u128 + rng.below(64) as u128,
        5 => ((1u128 << 32) * t * rng.range(1, 4) as u128).saturating_sub(1) + rng.below(3) as u128,
        6 => 1u128 << rng.range(0, 40),
        7 => (1u128 << 40) - 1 - rng.below(3) as u128,
        8 => rng.below(4) as u128,
        9 => lim_k.min(F_MAX) / 2 + rng.below(1000) as u128,
        _ => rng.log_range(1, 1 << 41) as u128,
    };
    (F.min(u64::MAX as u128) as u64, T, Z, N, Al)
}

thread_local! {
    /// the previous call on this thread (recorded in the replay file: a history-dependent answer needs it)
    static PREV: std::cell::Cell<Option<(u64, u16, u8, u16, u8)>> = const { std::cell::Cell::new(None) };
}

pub fn check_one(ctx: &Ctx, F: u64, T: u16, Z: u8, N: u16, Al: u8) -> bool {
    let want = oracle(F, T, Z, Al);
    let got = guarded(|| Oti::new(F, T, Z, N, Al));
    let prev = PREV.with(|p| p.replace(Some((F, T, Z, N, Al))));
    let tuple = format!("new(F={F},T={T},Z={Z},N={N},Al={Al})");
    let mut case = vec![("F", J::i(F)), ("T", J::i(T)), ("Z", J::i(Z)), ("N", J::i(N)), ("Al", J::i(Al))];
    if let Some((pf, pt, pz, pn, pal)) = prev {
        case.push(("previous_call_on_this_thread", J::obj(vec![("F", J::i(pf)), ("T", J::i(pt)), ("Z", J::i(pz)), ("N", J::i(pn)), ("Al", J::i(pal))])));
    }
    let case = J::obj(case);
    match (&got, want) {
        (Ok(_), false) => {
            ctx.violation(format!("C19 {tuple} accepted"), format!("{tuple} was accepted although it violates a documented limit (F<=942574504275, Al|T, ceil(ceil(F/T)/Z)<=56403)"), case);
            false
        }
        (Err(m), true) => {
            ctx.violation(format!("C19 {tuple} refused"), format!("{tuple} satisfies every documented limit but was refused: {}", short(m, 120)), case);
            false
        }
        (Ok(o), true) => {
            let echo = o.transfer_length() == F && o.symbol_size() == T && o.source_blocks() == Z && o.sub_blocks() == N && o.symbol_alignment() == Al;
            let ser = o.serialize();
            let ser_ok = F >= (1 << 40)
                || (ser[0..5] == F.to_be_bytes()[3..8] && ser[5] == 0 && ser[6..8] == T.to_be_bytes() && ser[8] == Z && ser[9..11] == N.to_be_bytes() && ser[11] == Al);
            if !echo || !ser_ok {
                ctx.violation(format!("C19 {tuple} echo"), format!("{tuple} accepted but accessors/serialisation do not report the given values"), case);
                return false;
            }
            true
        }
        (Err(_), false) => true,
    }
}

pub fn run(ctx: &Ctx) -> i32 {
    if let Some(p) = &ctx.args.replay {
        let j = parse_json(&std::fs::read_to_string(p).expect("replay file")).expect("json");
        let c = j.get("case").unwrap();
        ctx.eval(1);
        if let Some(p) = c.get("previous_call_on_this_thread") {
            let _ = guarded(|| Oti::new(p.u("F"), p.u("T") as u16, p.u("Z") as u8, p.u("N") as u16, p.u("Al") as u8));
        }
        check_one(ctx, c.u("F"), c.u("T") as u16, c.u("Z") as u8, c.u("N") as u16, c.u("Al") as u8);
        ctx.nontrivial(1);
        ctx.nontrivial(2);
        return ctx.finish("replay of one recorded tuple", &[], vec![]);
    }
    let total: usize = ctx.args.pick(10_000_000, 100_000_000);
    let chunk = 50_000;
    let accepted = std::sync::atomic::AtomicU64::new(0);
    let refused = std::sync::atomic::AtomicU64::new(0);
    let big_q = std::sync::atomic::AtomicU64::new(0);
    let hist_calls = std::sync::atomic::AtomicU64::new(0);
    // directed cases first (documented maxima, the historical narrowing inputs)
    for &(F, T, Z, N, Al) in &[
        (942574504275u64, 65535u16, 255u8, 1u16, 1u8),
        (942574504276, 65535, 255, 1, 1),
        (56403, 1, 1, 1, 1),
        (56404, 1, 1, 1, 1),
        (56403 * 255, 1, 255, 1, 1),
        (56403 * 255 + 1, 1, 255, 1, 1),
        ((1u64 << 32) + 5, 1, 1, 1, 1),
        (1u64 << 32, 1, 255, 1, 1),
        ((1u64 << 32) * 255 + 3, 1, 255, 1, 1),
        (8, 8, 1, 1, 8),
        (8, 8, 1, 1, 3),
        (1, 65535, 1, 0, 255),
    ] {
        ctx.eval(1);
        check_one(ctx, F, T, Z, N, Al);
    }
    par_for(total / chunk, |ci| {
        let mut rng = Rng::derive(ctx.seed(), 19, ci as u64);
        let mut local = std::collections::HashSet::new();
        let (mut a, mut r, mut b) = (0u64, 0u64, 0u64);
        let mut hist = 0u64;
        for _ in 0..chunk {
            if ctx.too_many_violations() {
                break;
            }
            let (F, T, Z, N, Al) = gen(&mut rng);
            check_one(ctx, F, T, Z, N, Al);
            // call histories: the constructor is a pure function of its arguments, so its answer must not
            // depend on what was asked before. One tuple in eight is followed, on the same thread, by
            // neighbours that differ from the previous call in exactly one field (each field in turn, both
            // towards acceptance and towards refusal), and by the original tuple again
            if rng.chance(1, 8) {
                let (mut f, mut t, mut z, mut n, mut al) = (F, T, Z, N, Al);
                for step in 0..rng.range(2, 7) {
                    match (step + rng.below(5)) % 5 {
                        0 => al = match rng.below(4) { 0 => 1, 1 => al.wrapping_add(1).max(1), 2 => rng.range(1, 255) as u8, _ => { let mut d = rng.range(1, 255.min(t as u64)) as u16; while t % d != 0 { d -= 1; } d as u8 } },
                        1 => t = match rng.below(3) { 0 => t.wrapping_add(1).max(1), 1 => (t as u32 * rng.range(1, 3) as u32).min(65535) as u16, _ => rng.range(1, 65535) as u16 },
                        2 => z = match rng.below(3) { 0 => z.wrapping_add(1).max(1), 1 => z.wrapping_sub(1).max(1), _ => rng.range(1, 255) as u8 },
                        3 => f = match rng.below(4) { 0 => f.wrapping_add(1), 1 => f.wrapping_sub(1), 2 => (K_MAX * z as u128 * t as u128).min(u64::MAX as u128) as u64 + rng.below(2), _ => gen(&mut rng).0 },
                        _ => n = rng.next() as u16,
                    }
                    check_one(ctx, f, t, z, n, al);
                    hist += 1;
                }
                check_one(ctx, F, T, Z, N, Al);
                hist += 1;
            }
            if oracle(F, T, Z, Al) {
                a += 1
            } else {
                r += 1
            }
            let lim = K_MAX * Z as u128 * T as u128;
            let near = (F as u128).abs_diff(lim) <= 2 || (F as u128).abs_diff(F_MAX) <= 2;
            let big = F as u128 / T as u128 >= 1 << 32;
            if big {
                b += 1;
            }
            if near || big {
                let mut h = H64::new();
                h.u64(F).u64(T as u64).u64(Z as u64).u64(N as u64).u64(Al as u64);
                local.insert(h.get());
            }
            if ci == 0 {
                ctx.sample(|| J::s(format!("new(F={F},T={T},Z={Z},N={N},Al={Al}) -> oracle accept={}", oracle(F, T, Z, Al))));
            }
        }
        ctx.eval(chunk);
        ctx.nontrivial_many(local);
        accepted.fetch_add(a, std::sync::atomic::Ordering::Relaxed);
        refused.fetch_add(r, std::sync::atomic::Ordering::Relaxed);
        big_q.fetch_add(b, std::sync::atomic::Ordering::Relaxed);
        hist_calls.fetch_add(hist, std::sync::atomic::Ordering::Relaxed);
    });
    use std::sync::atomic::Ordering::Relaxed;
    ctx.floor("tuples_oracle_accepts", accepted.load(Relaxed), 1000);
    ctx.floor("tuples_oracle_refuses", refused.load(Relaxed), 1000);
    ctx.floor("tuples_with_F_over_T_at_least_2^32", big_q.load(Relaxed), 1000);
    ctx.floor("calls_that_differ_from_the_previous_call_on_the_same_thread_in_one_field", hist_calls.load(Relaxed), 1000);
    ctx.finish(
        "tuples (F,T,Z,N,Al) from boundary/narrowing-directed strata; ObjectTransmissionInformation::new under catch_unwind must return iff the documented limits hold (u128 oracle), accessors and serialize must echo the arguments; one tuple in eight is followed on the same thread by 2-6 calls that differ from the previous call in exactly one field and by the tuple itself again (the answer must not depend on the call history). non-trivial = within +-2 of a limit or F/T >= 2^32; distinct by tuple hash",
        &["domain T>=1, Z>=1, Al>=1 (positive parameters, as the property states); N is unconstrained by the constructor's documentation"],
        vec![],
    )
}
