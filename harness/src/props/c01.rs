//! C01 — decoding never returns anything but the original object.
#![allow(non_snake_case)]
use super::util::*;
use crate::common::*;
use raptorq::{Decoder, Encoder, EncodingPacket, SourceBlockDecoder};
use std::collections::HashSet;
use std::sync::atomic::{AtomicU64, Ordering::Relaxed};

#[derive(Default)]
pub struct Stats {
    pub cases: AtomicU64,
    pub calls: AtomicU64,
    pub z_gt1: AtomicU64,
    pub n_gt1: AtomicU64,
    pub padded: AtomicU64,
    pub solved_via_repair: AtomicU64,
    pub completed: AtomicU64,
    pub never_completed: AtomicU64,
    pub top_esi: AtomicU64,
    pub big_blocks: AtomicU64,
    pub block_level: AtomicU64,
    pub huge_symbols: AtomicU64,
    pub all_kprime: AtomicU64,
    pub row_floods: AtomicU64,
    pub large_objects: AtomicU64,
    pub all_kprime_solved: AtomicU64,
}

pub struct Case {
    pub shape: Shape,
    pub data: Vec<u8>,
    pub data_kind: &'static str,
    pub threshold: u32,
    pub incremental_api: bool,
    /// delivery history as (sbn, esi)
    pub history: Vec<(u8, u32)>,
}

pub const THRESHOLDS: [u32; 3] = [0, 250, u32::MAX];

/// family 0: small stratified shapes; family 1: big single blocks with little loss
pub fn gen_case(seed: u64, idx: u64, family: u64, max_kt: usize, max_t: usize) -> Case {
    let mut rng = Rng::derive(seed, 0x0101 + family, idx);
    let shape = if family == 1 {
        let K = *rng.pick(&[1000usize, 4096, 10000, 20000, 40000, 56403, 56403]);
        let K = if rng.chance(1, 2) { K } else { rng.range(K as u64 / 2, K as u64) as usize };
        let T = *rng.pick(&[4usize, 8, 16]);
        let Al = *rng.pick(&[1usize, 4]);
        let N = if rng.chance(1, 3) { rng.range(1, (T / Al) as u64) as usize } else { 1 };
        Shape { F: K * T - rng.below(T as u64) as usize, T, Z: 1, N, Al }
    } else if family == 2 {
        // huge symbols: T over the whole 16-bit range, few symbols (slabs of several MiB)
        let Al = *rng.pick(&[1usize, 2, 4, 8]);
        let units = match rng.below(4) {
            0 => 65535 / Al,
            1 => rng.range(4096 / Al as u64, 65535 / Al as u64) as usize,
            _ => rng.range(1500 / Al as u64, 20000 / Al as u64) as usize,
        };
        let T = units * Al;
        let N = match rng.below(3) {
            0 => 1,
            1 => rng.range(1, 8) as usize,
            _ => rng.range(1, units as u64) as usize,
        };
        let Kt = rng.range(1, 120) as usize;
        let Z = rng.range(1, Kt.min(3) as u64) as usize;
        Shape { F: Kt * T - rng.below(T as u64) as usize, T, Z, N, Al }
    } else if family == 4 {
        // large objects: tens of megabytes (byte offsets beyond 2^24), from one huge block to 255 blocks
        let T = *rng.pick(&[1024usize, 1400, 4096, 40000]);
        let Al = if T % 8 == 0 { 8 } else { 4 };
        let F = rng.range(17_000_000, 40_000_000) as usize;
        let kt = F.div_ceil(T);
        let zmin = kt.div_ceil(56403).max(1);
        let Z = match idx % 4 {
            0 => zmin,
            1 => 255,
            2 => rng.range(100, 254) as usize,
            _ => rng.range(zmin as u64, 20.max(zmin as u64 + 1)) as usize,
        }
        .min(kt);
        let N = if rng.chance(1, 3) { 2 } else { 1 };
        Shape { F, T, Z, N, Al }
    } else if family == 5 {
        // correlated loss: several blocks of equal size that will all lose the same source positions and
        // receive the same repair ESIs (a bursty channel, a carousel sender) - only the arrival order differs
        let k = rng.range(2, 40) as usize;
        let Z = rng.range(2, 6) as usize;
        let rem = if rng.chance(1, 2) { 0 } else { rng.below(Z as u64) as usize };
        let T = *rng.pick(&[1usize, 2, 4, 8, 16, 33]);
        let N = if T >= 2 && T != 33 && rng.chance(1, 4) { 2 } else { 1 };
        Shape { F: (k * Z + rem) * T - rng.below(T as u64) as usize, T, Z, N, Al: 1 }
    } else if family == 3 {
        // every extended block size K' of Table 2: K = K' (no padding symbols) and K = previous K' + 1
        // (the most padding symbols this K' can have); idx = 2 * row (+1) + 954 * repetition
        let row = (idx as usize % 954) / 2;
        let kp = crate::golden::TABLE2[row].0 as usize;
        let K = if idx % 2 == 0 { kp } else if row == 0 { 1 } else { crate::golden::TABLE2[row - 1].0 as usize + 1 };
        let T = *rng.pick(&[1usize, 2, 4, 8]);
        let N = if T >= 2 && rng.chance(1, 4) { 2 } else { 1 };
        Shape { F: K * T - if rng.chance(1, 2) { rng.below(T as u64) as usize } else { 0 }, T, Z: 1, N, Al: 1 }
    } else {
        gen_shape(&mut rng, max_kt, max_t, 8)
    };
    let (data, data_kind) = make_data(&mut rng, shape.F);
    // the dense back-end is cubic: above 1000 symbols only the sparse thresholds are drawn for the K' sweep
    let threshold = if family == 3 && shape.kt() > 1000 { *rng.pick(&THRESHOLDS[..2]) } else { *rng.pick(&THRESHOLDS) };
    let incremental_api = rng.chance(2, 5);
    let ks = shape.block_ks();
    let drop_pct = if family == 5 { *rng.pick(&[5u64, 10, 20, 30, 50]) } else if family == 4 { rng.below(2) } else if family == 1 { rng.below(4) } else { *rng.pick(&[0u64, 0, 5, 10, 20, 30, 50, 70]) };
    let mut history: Vec<(u8, u32)> = vec![];
    let block_seed = rng.next();
    for (z, &K) in ks.iter().enumerate() {
        if family == 5 {
            rng = Rng::new(block_seed); // every block draws the same loss pattern and the same repair ESIs
        }
        let mut lost = 0usize;
        // family 3 loses 1..4 chosen source symbols (first / last / random) instead of a percentage
        let mut chosen: HashSet<usize> = HashSet::new();
        if family == 3 {
            for _ in 0..rng.range(1, 4) {
                chosen.insert(match rng.below(4) {
                    0 => 0,
                    1 => K - 1,
                    _ => rng.below(K as u64) as usize,
                });
            }
        }
        for esi in 0..K {
            if chosen.contains(&esi) || (family != 3 && rng.below(100) < drop_pct) {
                lost += 1;
                continue;
            }
            history.push((z as u8, esi as u32));
        }
        // repair packets: sometimes fewer than lost (never completes), usually a little more
        // (a large overhead, delivered as one batch at block level, is what reaches the decoder's
        // GF(2)-only attempt: it needs at least K + H distinct symbols)
        let r = match if family == 3 { 3 + rng.below(4) } else { rng.below(7) } {
            0 => lost.saturating_sub(1),
            1 => lost,
            2 => lost + rng.range(10, 40) as usize,
            _ => lost + rng.range(0, 4) as usize,
        };
        let mut esis: HashSet<u32> = HashSet::new();
        while esis.len() < r {
            let e = match rng.below(10) {
                0 | 1 | 2 | 3 => K as u32 + esis.len() as u32,
                4 => (1 << 24) - 1,
                5 => (1 << 24) - 1 - rng.below(1000) as u32,
                _ => rng.range(K as u64, (1 << 24) - 1) as u32,
            };
            esis.insert(e);
        }
        let mut esis: Vec<u32> = esis.into_iter().collect();
        esis.sort_unstable();
        for e in esis {
            history.push((z as u8, e));
        }
    }
    // duplication 0..3x
    let dup_pct = if family == 3 || family == 4 { 0 } else { *rng.pick(&[0u64, 0, 10, 30]) };
    let n0 = history.len();
    for i in 0..n0 {
        if rng.below(100) < dup_pct {
            for _ in 0..rng.range(1, 3) {
                history.push(history[i]);
            }
        }
    }
    match rng.below(4) {
        0 => {} // in order (sequential blocks, source first)
        1 => history.reverse(),
        _ => rng.shuffle(&mut history),
    }
    Case { shape, data, data_kind, threshold, incremental_api, history }
}

pub fn case_json(seed: u64, idx: u64, family: u64, max_kt: usize, max_t: usize, c: &Case) -> J {
    J::obj(vec![
        ("seed", J::i(seed)),
        ("idx", J::i(idx)),
        ("family", J::i(family)),
        ("max_kt", J::i(max_kt)),
        ("max_t", J::i(max_t)),
        ("shape", c.shape.json()),
        ("block_K", J::A(c.shape.block_ks().iter().map(|&k| J::i(k)).collect())),
        ("data_kind", J::s(c.data_kind)),
        ("sparse_threshold", J::i(c.threshold)),
        ("api", J::s(if c.incremental_api { "add_new_packet/get_result" } else { "decode" })),
        ("history_len", J::i(c.history.len())),
        ("history_head_sbn_esi", J::A(c.history.iter().take(40).map(|&(s, e)| J::A(vec![J::i(s), J::i(e)])).collect())),
    ])
}

/// build the packets named by the history from the real encoder
pub fn packets_for(enc: &Encoder, ks: &[usize], ids: &[(u8, u32)]) -> Vec<EncodingPacket> {
    let mut src: Vec<Option<Vec<EncodingPacket>>> = vec![None; ks.len()];
    let mut cache: std::collections::HashMap<(u8, u32), EncodingPacket> = std::collections::HashMap::new();
    let mut out = Vec::with_capacity(ids.len());
    for &(z, esi) in ids {
        let K = ks[z as usize];
        let be = &enc.get_block_encoders()[z as usize];
        let p = if (esi as usize) < K {
            let s = src[z as usize].get_or_insert_with(|| be.source_packets());
            s[esi as usize].clone()
        } else {
            cache.entry((z, esi)).or_insert_with(|| be.repair_packets(esi - K as u32, 1).pop().unwrap()).clone()
        };
        out.push(p);
    }
    out
}

pub fn run_case(ctx: &Ctx, c: &Case, replay: J, st: &Stats) {
    let s = &c.shape;
    let sig = |what: &str| format!("C01 {what} F={} T={} Z={} N={} Al={} thr={} api={} hist={:016x}", s.F, s.T, s.Z, s.N, s.Al, c.threshold, c.incremental_api as u8, {
        let mut h = H64::new();
        for &(a, b) in &c.history {
            h.u64(((a as u64) << 32) | b as u64);
        }
        h.get()
    });
    let ks = s.block_ks();
    let built = guarded(|| {
        let cfg = s.cfg();
        let enc = Encoder::new(&c.data, cfg);
        let pk = packets_for(&enc, &ks, &c.history);
        (cfg, pk)
    });
    let (cfg, pk) = match built {
        Ok(x) => x,
        Err(m) => {
            ctx.violation(sig("encoder-panic"), format!("building the encoder / packets for valid configuration {:?} panicked: {}", s, short(&m, 120)), replay);
            return;
        }
    };
    st.cases.fetch_add(1, Relaxed);
    let mut dec = Decoder::new(cfg);
    dec.verif_set_sparse_threshold(c.threshold);
    let mut have: Vec<HashSet<u32>> = vec![HashSet::new(); s.Z];
    let mut block_complete = vec![false; s.Z];
    let mut first_some_with_incomplete_source = false;
    let mut ever_some = false;
    for (i, p) in pk.into_iter().enumerate() {
        let (z, esi) = c.history[i];
        if (esi as usize) < ks[z as usize] {
            have[z as usize].insert(esi);
            if have[z as usize].len() == ks[z as usize] {
                block_complete[z as usize] = true;
            }
        }
        let ret = guarded(|| {
            if c.incremental_api {
                dec.add_new_packet(p);
                dec.get_result()
            } else {
                dec.decode(p)
            }
        });
        st.calls.fetch_add(1, Relaxed);
        match ret {
            Err(m) => {
                ctx.violation(sig("decoder-panic"), format!("decoder panicked on encoder-produced packet #{i} (SBN={z},ESI={esi}) of {:?}: {}", s, short(&m, 120)), replay);
                return;
            }
            Ok(None) => {
                if block_complete.iter().all(|&b| b) {
                    ctx.violation(sig("none-after-all-source"), format!("{:?}: every source packet of every block has been delivered (after packet #{i}) but the decoder still answers None", s), replay);
                    return;
                }
            }
            Ok(Some(v)) => {
                if v != c.data {
                    let d = first_diff(&v, &c.data);
                    ctx.violation(sig("wrong-bytes"), format!("{:?}: after packet #{i} (SBN={z},ESI={esi}) the decoder returned {} bytes (object has {}), first difference at byte {:?}", s, v.len(), c.data.len(), d), replay);
                    return;
                }
                if !ever_some && !block_complete.iter().all(|&b| b) {
                    first_some_with_incomplete_source = true;
                }
                ever_some = true;
            }
        }
    }
    if ever_some {
        st.completed.fetch_add(1, Relaxed);
    } else {
        st.never_completed.fetch_add(1, Relaxed);
    }
    if first_some_with_incomplete_source {
        st.solved_via_repair.fetch_add(1, Relaxed);
        let mut h = H64::new();
        h.u64(s.hash()).u64(c.threshold as u64);
        for &(a, b) in &c.history {
            h.u64(((a as u64) << 32) | b as u64);
        }
        ctx.nontrivial(h.get());
    }
    if s.Z > 1 {
        st.z_gt1.fetch_add(1, Relaxed);
    }
    if s.N > 1 {
        st.n_gt1.fetch_add(1, Relaxed);
    }
    if s.padding() > 0 {
        st.padded.fetch_add(1, Relaxed);
    }
    if c.history.iter().any(|&(_, e)| e == (1 << 24) - 1) {
        st.top_esi.fetch_add(1, Relaxed);
    }
}

/// block-level interface: SourceBlockDecoder::decode must return exactly the block's K*T bytes
pub fn run_block_case(ctx: &Ctx, c: &Case, replay: J, st: &Stats) {
    let s = &c.shape;
    let ks = s.block_ks();
    let z = (c.history.len() + s.F) % s.Z;
    let ids: Vec<(u8, u32)> = c.history.iter().copied().filter(|&(b, _)| b as usize == z).collect();
    let want = block_bytes(&c.data, s, z);
    let r = guarded(|| {
        let cfg = s.cfg();
        let enc = Encoder::new(&c.data, cfg);
        let pk = packets_for(&enc, &ks, &ids);
        let mut d = SourceBlockDecoder::new(z as u8, &cfg, (ks[z] * s.T) as u64);
        d.verif_set_sparse_threshold(c.threshold);
        // deliver in one batch or in two
        let cut = if ids.len() % 2 == 0 { 0 } else { pk.len() / 2 };
        let mut it = pk.into_iter();
        let first: Vec<_> = it.by_ref().take(cut).collect();
        let a = d.decode(first);
        let b = d.decode(it);
        (a, b)
    });
    st.block_level.fetch_add(1, Relaxed);
    let sig = format!("C01 block-level F={} T={} Z={} N={} Al={} z={z} thr={} n={}", s.F, s.T, s.Z, s.N, s.Al, c.threshold, ids.len());
    match r {
        Err(m) => ctx.violation(sig, format!("SourceBlockDecoder panicked on encoder-produced packets of block {z} of {:?}: {}", s, short(&m, 120)), replay),
        Ok((a, b)) => {
            for (which, v) in [("first batch", a), ("second batch", b)] {
                if let Some(v) = v {
                    if v != want {
                        ctx.violation(sig.clone(), format!("{:?}: SourceBlockDecoder::decode ({which}) of block {z} returned {} bytes, expected the block's {} bytes; first difference {:?}", s, v.len(), want.len(), first_diff(&v, &want)), replay.clone());
                    }
                }
            }
        }
    }
}

/// Row flood: one block-level decode call that hands over more than 2^16 distinct symbols of a small
/// block (the solver's row indices exceed 16 bits). Some(block bytes) is the only admissible answer
/// unless the rank oracle says the set is undecodable.
pub fn run_flood_case(ctx: &Ctx, seed: u64, idx: u64, st: &Stats) {
    let mut rng = Rng::derive(seed, 0x0105, idx);
    let K = *rng.pick(&[5usize, 10, 11, 13, 26, 55, 101]);
    let T = *rng.pick(&[1usize, 2, 3, 8]);
    let kept = match rng.below(3) {
        0 => 0,
        1 => K - 1,
        _ => rng.below(K as u64) as usize,
    };
    let total = 65_536 - 60 + rng.below(160) as usize;
    let data = rng.bytes(K * T);
    let start = if rng.chance(1, 2) { 0 } else { rng.below((1 << 24) - K as u64 - total as u64 - 1) as u32 };
    let threshold = *rng.pick(&THRESHOLDS);
    let replay = J::obj(vec![("flood", J::i(1)), ("seed", J::i(seed)), ("idx", J::i(idx)), ("K", J::i(K)), ("T", J::i(T)), ("kept_source", J::i(kept)), ("symbols_in_one_call", J::i(total)), ("first_repair_index", J::i(start)), ("sparse_threshold", J::i(threshold))]);
    let sig = format!("C01 row-flood K={K} T={T} kept={kept} total={total} start={start} thr={threshold}");
    let r = guarded(|| {
        let cfg = raptorq::ObjectTransmissionInformation::new((K * T) as u64, T as u16, 1, 1, 1);
        let enc = raptorq::SourceBlockEncoder::new(0, &cfg, &data);
        let mut pk: Vec<EncodingPacket> = enc.source_packets().into_iter().take(kept).collect();
        pk.extend(enc.repair_packets(start, (total - kept) as u32));
        let mut d = SourceBlockDecoder::new(0, &cfg, (K * T) as u64);
        d.verif_set_sparse_threshold(threshold);
        // a few symbols first, the flood in one call
        let rest = pk.split_off(rng.below(4) as usize);
        let a = d.decode(pk);
        let b = d.decode(rest);
        (a, b)
    });
    st.row_floods.fetch_add(1, Relaxed);
    match r {
        Err(m) => ctx.violation(sig, format!("K={K}: SourceBlockDecoder panicked when {total} distinct encoder-produced symbols were delivered in one call: {}", short(&m, 140)), replay),
        Ok((a, b)) => {
            if a.is_some() {
                ctx.violation(sig.clone(), format!("K={K}: decoder answered with fewer than 4 symbols"), replay.clone());
            }
            match b {
                Some(v) if v == data => {}
                Some(v) => ctx.violation(sig, format!("K={K}, T={T}: decoding {total} distinct symbols delivered in one call returned wrong bytes (first difference at {:?})", first_diff(&v, &data)), replay),
                None => ctx.violation(sig, format!("K={K}: {total} distinct symbols (consecutive repair ids from {start}) delivered in one call and the decoder answered None"), replay),
            }
        }
    }
}

pub fn run(ctx: &Ctx) -> i32 {
    let st = Stats::default();
    if let Some(p) = &ctx.args.replay {
        let j = parse_json(&std::fs::read_to_string(p).expect("replay file")).expect("json");
        let c = j.get("case").unwrap();
        if c.get("flood").and_then(|f| f.as_u64()) == Some(1) {
            ctx.eval(1);
            run_flood_case(ctx, c.u("seed"), c.u("idx"), &st);
            ctx.nontrivial(1);
            ctx.nontrivial(2);
            return ctx.finish("replay of one recorded row-flood case", &[], vec![]);
        }
        let (seed, idx, fam, mk, mt) = (c.u("seed"), c.u("idx"), c.u("family"), c.u("max_kt") as usize, c.u("max_t") as usize);
        let case = gen_case(seed, idx, fam, mk, mt);
        ctx.eval(1);
        run_case(ctx, &case, case_json(seed, idx, fam, mk, mt, &case), &st);
        run_block_case(ctx, &case, case_json(seed, idx, fam, mk, mt, &case), &st);
        ctx.nontrivial(1);
        ctx.nontrivial(2);
        return ctx.finish("replay of one recorded case", &[], vec![]);
    }
    crashlog::set_case_fields(&["seed", "idx", "family", "max_kt", "max_t", "flood"]);
    let n = ctx.args.ex_u64("n", ctx.args.pick(60000, 600000)) as usize;
    let (max_kt, max_t) = (ctx.args.ex_u64("max_kt", 320) as usize, ctx.args.ex_u64("max_t", 1024) as usize);
    par_for(n, |i| {
        if ctx.too_many_violations() {
            return;
        }
        // 1 in 10 cases uses larger blocks (crossing the dense/sparse switch at K'=250 more often)
        let mk = if i % 10 == 0 { max_kt * 4 } else { max_kt / 4 };
        let mt = if i % 10 == 0 { 64 } else { max_t };
        crashlog::note(crashlog::CASE, &[ctx.seed(), i as u64, 0, mk as u64, mt as u64, 0]);
        let c = gen_case(ctx.seed(), i as u64, 0, mk, mt);
        let rj = case_json(ctx.seed(), i as u64, 0, mk, mt, &c);
        if i < 3 {
            ctx.sample(|| rj.clone());
        }
        run_case(ctx, &c, rj.clone(), &st);
        if i % 2 == 0 {
            run_block_case(ctx, &c, rj, &st);
        }
        ctx.eval(1);
    });
    let nbig = ctx.args.ex_u64("nbig", ctx.args.pick(3, 40)) as usize;
    par_for_threads(threads().min(8), nbig, |i| {
        crashlog::note(crashlog::CASE, &[ctx.seed(), i as u64, 1, 0, 0, 0]);
        let c = gen_case(ctx.seed(), i as u64, 1, 0, 0);
        let rj = case_json(ctx.seed(), i as u64, 1, 0, 0, &c);
        run_case(ctx, &c, rj, &st);
        st.big_blocks.fetch_add(1, Relaxed);
        ctx.eval(1);
    });
    let nlarge = ctx.args.ex_u64("nlarge", if ctx.args.ex("n").is_some() { 0 } else { ctx.args.pick(3, 24) }) as usize;
    par_for_threads(threads().min(4), nlarge, |i| {
        crashlog::note(crashlog::CASE, &[ctx.seed(), i as u64, 4, 0, 0, 0]);
        let c = gen_case(ctx.seed(), i as u64, 4, 0, 0);
        let rj = case_json(ctx.seed(), i as u64, 4, 0, 0, &c);
        run_case(ctx, &c, rj, &st);
        st.large_objects.fetch_add(1, Relaxed);
        ctx.eval(1);
    });
    ctx.cov("large_object_cases_17_to_40_MB", J::i(st.large_objects.load(Relaxed)));
    // correlated loss across the blocks of one object (identical ESI sets per block, different orders)
    let nsame = ctx.args.ex_u64("nsame", ctx.args.pick(4000, 60000)) as usize;
    par_for(nsame, |i| {
        if ctx.too_many_violations() {
            return;
        }
        crashlog::note(crashlog::CASE, &[ctx.seed(), i as u64, 5, 0, 0, 0]);
        let c = gen_case(ctx.seed(), i as u64, 5, 0, 0);
        let rj = case_json(ctx.seed(), i as u64, 5, 0, 0, &c);
        run_case(ctx, &c, rj, &st);
        ctx.eval(1);
    });
    ctx.cov("multi_block_objects_whose_blocks_all_receive_the_same_ESI_set_(correlated_loss)_in_different_orders", J::i(nsame));
    let nhuge = ctx.args.ex_u64("nhuge", ctx.args.pick(60, 1500)) as usize;
    par_for(nhuge, |i| {
        crashlog::note(crashlog::CASE, &[ctx.seed(), i as u64, 2, 0, 0, 0]);
        let c = gen_case(ctx.seed(), i as u64, 2, 0, 0);
        let rj = case_json(ctx.seed(), i as u64, 2, 0, 0, &c);
        run_case(ctx, &c, rj.clone(), &st);
        run_block_case(ctx, &c, rj, &st);
        st.huge_symbols.fetch_add(1, Relaxed);
        ctx.eval(1);
    });
    // more than 2^16 symbols of one small block in a single decode call
    if ctx.args.ex("n").is_none() {
        par_for(ctx.args.pick(24, 400), |i| {
            if !ctx.too_many_violations() {
                crashlog::note(crashlog::CASE, &[ctx.seed(), i as u64, 0, 0, 0, 1]);
                run_flood_case(ctx, ctx.seed(), i as u64, &st);
                ctx.eval(1);
            }
        });
    }
    ctx.cov("row_flood_cases_(about_2^16_symbols_in_one_decode_call)", J::i(st.row_floods.load(Relaxed)));
    // every K' of Table 2, with and without padding symbols, decoded through the solver
    let reps = ctx.args.ex_u64("kprime_reps", ctx.args.pick(1, 6)) as usize;
    let solved_before = st.solved_via_repair.load(Relaxed);
    // quick: every K' up to kprime_max plus every 16th larger one (rotating with the seed); thorough: all
    let kprime_max = ctx.args.ex_u64("kprime_max", ctx.args.pick(12000, 56403)) as usize;
    par_for(954 * reps, |i| {
        if ctx.too_many_violations() {
            return;
        }
        let row = (i % 954) / 2;
        if crate::golden::TABLE2[row].0 as usize > kprime_max && (row as u64 + ctx.seed()) % 16 != 0 {
            return;
        }
        crashlog::note(crashlog::CASE, &[ctx.seed(), i as u64, 3, 0, 0, 0]);
        let c = gen_case(ctx.seed(), i as u64, 3, 0, 0);
        let rj = case_json(ctx.seed(), i as u64, 3, 0, 0, &c);
        run_case(ctx, &c, rj.clone(), &st);
        if c.shape.kt() <= 3000 {
            run_block_case(ctx, &c, rj, &st);
        }
        st.all_kprime.fetch_add(1, Relaxed);
        ctx.eval(1);
    });
    st.all_kprime_solved.store(st.solved_via_repair.load(Relaxed) - solved_before, Relaxed);
    ctx.cov("all_477_Kprime_x_{K=K',K=prevK'+1}_decode_cases", J::i(st.all_kprime.load(Relaxed)));
    ctx.cov("all_Kprime_cases_answered_through_the_solver", J::i(st.all_kprime_solved.load(Relaxed)));
    let ev = raptorq::verif::events::read();
    ctx.cov("cases_with_symbol_size_1500_to_65535", J::i(st.huge_symbols.load(Relaxed)));
    ctx.cov("decoder_calls_monitored", J::i(st.calls.load(Relaxed)));
    ctx.cov("cases_completed", J::i(st.completed.load(Relaxed)));
    ctx.cov("cases_never_completed_too_few_packets", J::i(st.never_completed.load(Relaxed)));
    ctx.cov("block_level_cases", J::i(st.block_level.load(Relaxed)));
    ctx.cov("big_block_cases_K_up_to_56403", J::i(st.big_blocks.load(Relaxed)));
    ctx.cov("cases_with_ESI_2^24-1", J::i(st.top_esi.load(Relaxed)));
    ctx.cov(
        "hook_counters_decoder_paths",
        J::obj(vec![
            ("case1_too_few", J::i(ev[0])),
            ("case2_all_source", J::i(ev[1])),
            ("case3a_gf2_only_attempts", J::i(ev[2])),
            ("case3a_gf2_only_success", J::i(ev[3])),
            ("case3b_full_solve_attempts", J::i(ev[4])),
            ("case3b_full_solve_success", J::i(ev[5])),
        ]),
    );
    let q = ctx.args.quick() && ctx.args.ex("n").is_none();
    ctx.floor("cases_with_Z_gt_1", st.z_gt1.load(Relaxed), if q { 100 } else { 20 });
    ctx.floor("cases_with_N_gt_1", st.n_gt1.load(Relaxed), if q { 100 } else { 20 });
    ctx.floor("cases_with_padding", st.padded.load(Relaxed), if q { 100 } else { 20 });
    if ctx.args.ex("n").is_none() {
        ctx.floor("all_Kprime_cases_answered_through_the_solver", st.all_kprime_solved.load(Relaxed), 400);
    }
    ctx.floor("cases_answered_Some_through_the_solver_before_all_source_arrived", st.solved_via_repair.load(Relaxed), if q { 300 } else { 20 });
    ctx.finish(
        "case = valid configuration (stratified F,T,Z,N,Al incl. padding, symbol sizes up to 65535 and sub-block counts up to T/Al, Kt mod Z != 0, (T/Al) mod N != 0, K crossing 10/11 and the dense/sparse switch) x data (random/zero/0xFF/one-hot/position-coded) x delivery history (random sub-multiset of the encoder's source packets and repair packets with ESIs from {K.., uniform in [K,2^24), 2^24-1}; loss 0-70 %, duplicates 0-3x; in order / reversed / shuffled) x sparse threshold {0,250,inf} x {decode, add_new_packet+get_result}; after EVERY decoder call the return value must be None or exactly the object, and Some once every source packet of every block was delivered; block-level decode must return exactly the block's K*T bytes. non-trivial = the first Some arrived while some block's source set was incomplete (answer produced by the solver); distinct by (shape, threshold, history)",
        &["packets are those produced by the crate's own encoder for the object (the property's domain); byte-exactness of those packets w.r.t. the RFC is C04's business"],
        vec![],
    )
}
