//! C16 — dense and sparse binary matrices implement the same abstract matrix.
use super::c16walk::run_sequence;
use crate::common::*;
use std::sync::atomic::{AtomicU64, Ordering::Relaxed};

fn seq_seed(seed: u64, idx: u64) -> u64 {
    let mut x = seed.wrapping_mul(1_000_003).wrapping_add(idx) ^ 0x16161616;
    splitmix(&mut x)
}

pub fn run_one(ctx: &Ctx, s: u64, st: &[AtomicU64; 10]) {
    crashlog::set_case_fields(&["sequence_seed"]);
    crashlog::note(crashlog::CASE, &[s]);
    match guarded(|| run_sequence(s)) {
        Ok((ops, q, _, feat)) => {
            st[0].fetch_add(ops as u64, Relaxed);
            st[1].fetch_add(q as u64, Relaxed);
            for k in 0..4 {
                st[2 + k].fetch_add(feat[k] as u64, Relaxed);
            }
            st[8].fetch_add(feat[4] as u64, Relaxed);
            st[9].fetch_add(feat[5] as u64, Relaxed);
            if feat[0] > 0 {
                st[6].fetch_add(1, Relaxed);
            }
            if feat[0] > 0 && feat[1] > 0 && feat[2] > 0 {
                st[7].fetch_add(1, Relaxed);
                ctx.nontrivial(s);
            }
        }
        Err(m) if m.starts_with("harness:") => ctx.inconclusive(format!("sequence {s}: generator precondition failed: {m}")),
        Err(m) => ctx.violation(
            format!("C16 sequence={s} {}", short(&m, 60)),
            format!("operation sequence {s} (admissible by the matrix interface's preconditions): an implementation disagreed with the bit-array model or panicked: {}", short(&m, 300)),
            J::obj(vec![("sequence_seed", J::i(s))]),
        ),
    }
}

pub fn run(ctx: &Ctx) -> i32 {
    let st: [AtomicU64; 10] = Default::default();
    if let Some(p) = &ctx.args.replay {
        let j = parse_json(&std::fs::read_to_string(p).expect("replay file")).expect("json");
        ctx.eval(1);
        run_one(ctx, j.get("case").unwrap().u("sequence_seed"), &st);
        ctx.nontrivial(1);
        ctx.nontrivial(2);
        return ctx.finish("replay of one recorded operation sequence", &[], vec![]);
    }
    let n = ctx.args.ex_u64("n", ctx.args.pick(50000, 400000)) as usize;
    par_for(n, |i| {
        if ctx.too_many_violations() {
            return;
        }
        let s = seq_seed(ctx.seed(), i as u64);
        run_one(ctx, s, &st);
        ctx.eval(1);
        if i < 3 {
            ctx.sample(|| J::obj(vec![("sequence_seed", J::i(s)), ("meaning", J::s("seed of one generated construction / indexed / un-indexed operation sequence; ./check C16 --replay re-executes it"))]));
        }
    });
    ctx.cov("operations_applied_to_both_implementations_and_the_model", J::i(st[0].load(Relaxed)));
    ctx.cov("query_answers_compared", J::i(st[1].load(Relaxed)));
    ctx.cov("column_freezes", J::i(st[2].load(Relaxed)));
    ctx.cov("partial_row_additions", J::i(st[3].load(Relaxed)));
    ctx.cov("resizes", J::i(st[4].load(Relaxed)));
    ctx.cov("index_re-enabled_after_an_un-indexed_phase", J::i(st[8].load(Relaxed)));
    ctx.cov("dense-only_resizes_to_an_arbitrary_smaller_size", J::i(st[9].load(Relaxed)));
    let q = ctx.args.ex("n").is_none();
    if ctx.n_violations() == 0 {
        ctx.floor("dense_tail_growth_across_a_word_boundary", st[5].load(Relaxed), if q { 20 } else { 0 });
        ctx.floor("sequences_with_a_freeze", st[6].load(Relaxed), if q { 500 } else { 1 });
        ctx.floor("index_re-enabled_after_an_un-indexed_phase", st[8].load(Relaxed), if q { 200 } else { 0 });
        ctx.floor("dense-only_narrowing_resizes", st[9].load(Relaxed), if q { 200 } else { 0 });
        ctx.floor("sequences_with_freeze_and_partial_add_and_resize", st[7].load(Relaxed), if q { 50 } else { 0 });
    }
    ctx.finish(
        "generated operation sequences that respect the interface's preconditions (construction: new(h>=w, any tail hint incl. 0) + set; indexed phase: solver-like grammar of swap_rows, swap_columns inside the sparse region, freezing the last sparse column, row additions with start 0 (single-sparse-one source) or at the first dense column, column queries on valid indexed columns; un-indexed phase: arbitrary row additions, swaps, set, resize (same width or dropping all dense columns), dense-tail queries; one to three such (indexed, un-indexed) rounds per sequence, the index being re-enabled after sets / row additions / resizes made while it was off; a dense-only epilogue shrinks the dense matrix to arbitrary smaller sizes (also inside a 64-bit word) and continues with row additions, sets, swaps and every query); widths 1..420 with emphasis on 63/64/65/127/128/129/191/192/193/255/256/257, dense-tail hints 0..260 incl. exact multiples of 64, tails growing through freezes across word boundaries; every query answer (get on every defined cell at quiescent points, count_ones, row iterators as sets of ones, ones-in-column, non-zero columns, packed sub-rows through hook verif_words, height/width, clone) of both implementations compared with a Vec<Vec<{0,1,undefined}>> model. non-trivial = sequence with >= 1 freeze, >= 1 partial row addition and a resize; distinct by sequence seed",
        &["admissible-sequence grammar collected from the trait comments, asserts and unimplemented!() branches of both implementations; cells left of start_col after a partial row addition are undefined and excluded", "degenerate empty spans (start_col = end_col) and an index built on an all-zero sparse part are treated as outside the interface"],
        vec![],
    )
}
