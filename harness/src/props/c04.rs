//! C04 — encoding symbols are byte-exact RFC 6330 symbols (interoperability).
#![allow(non_snake_case)]
use super::certify::*;
use crate::common::*;
use crate::golden::TABLE2;
use crate::refmodel::{self as rm, Gf};
use raptorq::{ObjectTransmissionInformation as Oti, SourceBlockEncoder};
use std::sync::atomic::{AtomicU64, Ordering::Relaxed};

#[derive(Default)]
struct Stats {
    repair_cmp: AtomicU64,
    source_cmp: AtomicU64,
    certified: AtomicU64,
    independent: AtomicU64,
    padded: AtomicU64,
}

fn esi_list(rng: &mut Rng, K: usize, n_first: usize, n_rand: usize) -> Vec<u32> {
    let p = rm::params(K);
    let mut v: Vec<u32> = (0..n_first as u32).map(|i| K as u32 + i).collect();
    for _ in 0..n_rand {
        v.push(rng.range(K as u64, (1 << 24) - 1) as u32);
    }
    v.extend([(1 << 24) - 1, (1 << 24) - 2, (1 << 24) - 3]);
    // internal symbol ids at and next to the byte boundaries of X (Rand[X, ...] works on the bytes of X)
    for k in [8u32, 16, 24] {
        for d in [-1i64, 0, 1] {
            let e = (1i64 << k) + d - (p.Kp - K) as i64;
            if e >= K as i64 && e < 1 << 24 {
                v.push(e as u32);
            }
        }
    }
    for X in super::c15::hostile_isis(&p) {
        let e = X as i64 - (p.Kp - K) as i64;
        if e >= K as i64 && e < 1 << 24 {
            v.push(e as u32);
        }
    }
    v.sort_unstable();
    v.dedup();
    v
}

/// route (b): certify the encoder's intermediate symbols, then compare packets with reference Enc
fn run_certified(ctx: &Ctx, gf: &Gf, K: usize, T: usize, seed: u64, n_first: usize, n_rand: usize, st: &Stats) {
    let mut rng = Rng::new(seed);
    let data = rng.bytes(K * T);
    let case = || J::obj(vec![("route", J::s("certify")), ("K", J::i(K)), ("T", J::i(T)), ("data_seed", J::i(seed)), ("n_first", J::i(n_first)), ("n_rand", J::i(n_rand))]);
    let cfg = Oti::new((K * T) as u64, T as u16, 1, 1, 1);
    let enc = match guarded(|| SourceBlockEncoder::new(7, &cfg, &data)) {
        Ok(e) => e,
        Err(m) => {
            ctx.violation(format!("C04 encoder-panic K={K} T={T}"), format!("SourceBlockEncoder::new for K={K}, T={T} panicked: {}", short(&m, 100)), case());
            return;
        }
    };
    let rel = Relations::new(gf, K);
    let p = rel.p;
    if p.Kp > K {
        st.padded.fetch_add(1, Relaxed);
    }
    let src = |i: usize| &data[i * T..(i + 1) * T];
    let c = |i: usize| enc.verif_intermediate_symbol(i);
    if enc.verif_num_intermediate_symbols() != p.L {
        ctx.violation(format!("C04 L K={K}"), format!("K={K}: encoder holds {} intermediate symbols, L={}", enc.verif_num_intermediate_symbols(), p.L), case());
        return;
    }
    if let Err(e) = certify(gf, &rel, K, T, &c, &src) {
        ctx.violation(format!("C04 intermediate K={K} T={T}"), format!("K={K} (K'={}), T={T}: the encoder's intermediate symbols are not the RFC's C: {e}", p.Kp), case());
        return;
    }
    st.certified.fetch_add(1, Relaxed);
    // source packets
    let sp = enc.source_packets();
    let mut ok = sp.len() == K;
    for (i, pk) in sp.iter().enumerate() {
        ok &= pk.payload_id().encoding_symbol_id() == i as u32 && pk.payload_id().source_block_number() == 7 && pk.data() == src(i);
    }
    st.source_cmp.fetch_add(K as u64, Relaxed);
    if !ok {
        ctx.violation(format!("C04 source K={K} T={T}"), format!("K={K}, T={T}: source packet i does not carry source symbol i (or wrong id)"), case());
    }
    // repair packets
    let esis = esi_list(&mut rng, K, n_first, n_rand);
    let mut local = vec![];
    for &e in &esis {
        let got = guarded(|| enc.repair_packets(e - K as u32, 1).pop().unwrap());
        let X = e as u64 + (p.Kp - K) as u64;
        let want = ref_symbol(&p, T, &c, X);
        st.repair_cmp.fetch_add(1, Relaxed);
        match got {
            Ok(pk) if pk.data() == &want[..] && pk.payload_id().encoding_symbol_id() == e => {}
            Ok(pk) => {
                ctx.violation(
                    format!("C04 repair K={K} T={T} esi={e}"),
                    format!("K={K} (K'={}), T={T}: repair packet ESI={e} (id says {}) carries {:02x?}, RFC Enc[K', C, Tuple[K', {X}]] is {:02x?}", p.Kp, pk.payload_id().encoding_symbol_id(), &pk.data()[..T.min(8)], &want[..T.min(8)]),
                    J::obj(vec![("route", J::s("certify")), ("K", J::i(K)), ("T", J::i(T)), ("data_seed", J::i(seed)), ("n_first", J::i(n_first)), ("n_rand", J::i(n_rand)), ("esi", J::i(e))]),
                );
                break;
            }
            Err(m) => {
                ctx.violation(format!("C04 repair-panic K={K} esi={e}"), format!("K={K}: repair_packets for ESI={e} panicked: {}", short(&m, 100)), case());
                break;
            }
        }
        local.push((K as u64) << 32 | e as u64);
    }
    ctx.nontrivial_many(local);
}

/// route (a): fully independent — the reference model solves A*C = D itself
fn run_independent(ctx: &Ctx, gf: &Gf, K: usize, T: usize, seed: u64, st: &Stats) {
    let mut rng = Rng::new(seed);
    let data = rng.bytes(K * T);
    let case = || J::obj(vec![("route", J::s("independent")), ("K", J::i(K)), ("T", J::i(T)), ("data_seed", J::i(seed))]);
    let p = rm::params(K);
    let mut lt: Vec<(u64, Vec<u8>)> = (0..K).map(|i| (i as u64, data[i * T..(i + 1) * T].to_vec())).collect();
    for i in K..p.Kp {
        lt.push((i as u64, vec![0u8; T]));
    }
    let (a, d) = rm::build_system(&p, gf, &lt, T);
    let cref = match rm::solve_dense(gf, a, d, p.L) {
        Some(c) => c,
        None => {
            ctx.inconclusive(format!("reference solve found the encoding constraint matrix singular for K'={} (golden table or reference model defect)", p.Kp));
            return;
        }
    };
    st.independent.fetch_add(1, Relaxed);
    let cfg = Oti::new((K * T) as u64, T as u16, 1, 1, 1);
    let r = guarded(|| {
        let enc = SourceBlockEncoder::new(0, &cfg, &data);
        let esis = esi_list(&mut rng, K, 12, 20);
        let pk: Vec<_> = esis.iter().map(|&e| enc.repair_packets(e - K as u32, 1).pop().unwrap()).collect();
        (esis, pk)
    });
    match r {
        Err(m) => ctx.violation(format!("C04 independent-panic K={K}"), format!("K={K}: encoder panicked: {}", short(&m, 100)), case()),
        Ok((esis, pk)) => {
            for (e, pk) in esis.iter().zip(pk.iter()) {
                let X = *e as u64 + (p.Kp - K) as u64;
                let want = rm::enc_symbol(&p, &cref, X);
                st.repair_cmp.fetch_add(1, Relaxed);
                if pk.data() != &want[..] {
                    ctx.violation(
                        format!("C04 independent K={K} T={T} esi={e}"),
                        format!("K={K} (K'={}), T={T}: repair packet ESI={e} differs from the symbol obtained by an independent solve of the RFC constraint system and Enc: got {:02x?}, want {:02x?}", p.Kp, &pk.data()[..T.min(8)], &want[..T.min(8)]),
                        case(),
                    );
                    break;
                }
                ctx.nontrivial((K as u64) << 32 | *e as u64 | 1 << 60);
            }
        }
    }
}

pub fn k_list(ctx: &Ctx) -> Vec<usize> {
    let all: Vec<usize> = TABLE2.iter().map(|r| r.0 as usize).collect();
    let mut ks = vec![];
    if ctx.args.quick() {
        let mut rng = Rng::derive(ctx.seed(), 4, 0);
        // every K' itself (a single wrong table row must not slip through), K'-1 / K'+1 for all
        // small K' and a stratified sample of the rest
        for (i, &kp) in all.iter().enumerate() {
            ks.push(kp);
            if kp <= 120 || i % 12 == (ctx.seed() % 12) as usize || kp == 56403 {
                if kp > 10 && rng.chance(1, 2) {
                    ks.push(kp - 1);
                }
                if kp < 56403 && rng.chance(1, 2) {
                    ks.push(kp + 1);
                }
            }
        }
        ks.extend([1, 2, 5, 9]);
    } else {
        for &kp in &all {
            ks.push(kp);
            if kp > 1 {
                ks.push(kp - 1);
            }
            if kp < 56403 {
                ks.push(kp + 1);
            }
        }
        ks.extend(1..10);
    }
    ks.sort_unstable();
    ks.dedup();
    ks
}

pub fn run(ctx: &Ctx) -> i32 {
    let gf = Gf::new();
    let st = Stats::default();
    if let Some(pth) = &ctx.args.replay {
        let j = parse_json(&std::fs::read_to_string(pth).expect("replay file")).expect("json");
        let c = j.get("case").unwrap();
        ctx.eval(1);
        if c.st("route") == "independent" {
            run_independent(ctx, &gf, c.u("K") as usize, c.u("T") as usize, c.u("data_seed"), &st);
        } else {
            run_certified(ctx, &gf, c.u("K") as usize, c.u("T") as usize, c.u("data_seed"), c.u("n_first") as usize, c.u("n_rand") as usize, &st);
        }
        ctx.nontrivial(1);
        ctx.nontrivial(2);
        return ctx.finish("replay of one recorded block", &[], vec![]);
    }
    let ks = k_list(ctx);
    let ts = [1usize, 2, 3, 7, 8, 64, 65];
    // big K first so the tail of the parallel loop is short
    let mut order: Vec<usize> = ks.clone();
    order.sort_unstable_by(|a, b| b.cmp(a));
    par_for(order.len(), |i| {
        if ctx.too_many_violations() {
            return;
        }
        let K = order[i];
        let mut rng = Rng::derive(ctx.seed(), 44, K as u64);
        let T = if K > 20000 {
            *rng.pick(&[1usize, 2, 3])
        } else if K <= 150 && i % 5 == 0 {
            *rng.pick(&[4096usize, 20000, 40000, 65535]) // slabs of several MiB
        } else {
            *rng.pick(&ts)
        };
        let (nf, nr) = if K > 20000 { (10, 40) } else if ctx.args.quick() && K > 2000 { (12, 60) } else { (30, 200) };
        run_certified(ctx, &gf, K, T, rng.next(), nf, nr, &st);
        ctx.eval(1);
        if K <= 600 && (K <= 60 || !ctx.args.quick() || i % 3 == 0) {
            let T2 = *rng.pick(&[1usize, 2, 5]);
            run_independent(ctx, &gf, K, T2, rng.next(), &st);
            ctx.eval(1);
        }
        #[cfg(feature = "full")]
        if i % 50 == 0 {
            raptorq::verif::verif_cache::clear();
        }
    });
    // history on one thread: Table-2 rows that share a systematic index J (85 values of J are shared by 181
    // rows), also rows that share S, or W's predecessor row, are encoded one after the other on the SAME thread,
    // smallest first - anything a thread remembers from an earlier block (memoised tuples, table rows, scratch
    // buffers) and keys too coarsely shows as a non-RFC symbol in the later block
    let mut groups: std::collections::BTreeMap<u32, Vec<usize>> = Default::default();
    for r in TABLE2.iter() {
        groups.entry(r.1).or_default().push(r.0 as usize);
    }
    let mut chains: Vec<Vec<usize>> = groups.into_values().filter(|g| g.len() >= 2).collect();
    // neighbouring rows as well (K' then the next K', and back)
    for w in TABLE2.windows(2).step_by(if ctx.args.quick() { 9 } else { 1 }) {
        chains.push(vec![w[1].0 as usize, w[0].0 as usize, w[1].0 as usize]);
    }
    let chained = std::sync::atomic::AtomicU64::new(0);
    par_for(chains.len(), |i| {
        for (j, &K) in chains[i].iter().enumerate() {
            if ctx.too_many_violations() {
                return;
            }
            let mut rng = Rng::derive(ctx.seed(), 45, (i * 8 + j) as u64);
            run_certified(ctx, &gf, K, 1 + (i + j) % 2, rng.next(), 8, 24, &st);
            chained.fetch_add(1, Relaxed);
        }
        ctx.eval(chains[i].len());
    });
    ctx.cov("blocks_encoded_in_same-thread_chains_(rows_sharing_J,_neighbouring_rows)", J::i(chained.load(Relaxed)));
    ctx.sample(|| J::obj(vec![("K", J::i(ks[0])), ("route", J::s("certify + independent solve")), ("esis", J::s("first 30 repair, 200 uniform in [K,2^24), 2^24-3..2^24-1, overflow-sensitive"))]));
    ctx.sample(|| J::obj(vec![("K", J::i(*ks.last().unwrap())), ("route", J::s("certify"))]));
    ctx.cov("K_values", J::i(ks.len()));
    ctx.cov("K_values_with_padding", J::i(st.padded.load(Relaxed)));
    ctx.cov("source_symbols_compared", J::i(st.source_cmp.load(Relaxed)));
    ctx.floor("blocks_whose_intermediate_symbols_were_certified", st.certified.load(Relaxed), ks.len() as u64);
    ctx.floor("blocks_solved_fully_independently_(K'<=600)", st.independent.load(Relaxed), 20);
    ctx.floor("repair_symbols_compared", st.repair_cmp.load(Relaxed), 5000);
    ctx.finish(
        "blocks of K symbols (quick: every K' of Table 2 with K = K', plus K'-1/K'+1 for K' <= 120 and a stratified sample; thorough: every K', K'-1, K'+1) x T in {1,2,3,7,8,64,65} (and 4096..65535 for some K <= 150) x random data; route (b): the encoder's intermediate symbols (hook H4) are certified against the reference model's LDPC, HDPC and LT relations (the encoding matrix is invertible, so they are the RFC's C), then every sampled repair packet (first 30, 200 uniform ESIs, the top 3, overflow-sensitive ESIs) must equal the reference Enc[K',C,Tuple[K',X+K'-K]] and source packet i must be source symbol i; additionally the rows of Table 2 that share a systematic index J, and (every 9th / every) pair of neighbouring rows, are encoded in chains on one thread (what a thread remembers from an earlier block must not leak into a later one); route (a), K' <= 600: the reference model solves the constraint system itself by dense Gauss over GF(256) and encodes, no hook involved. non-trivial = one (K, ESI) repair comparison; distinct by (K, ESI, route)",
        &["RFC data tables (V0..V3, Table 2, degree thresholds) from the golden copy frozen in /verif", "reference Rand/Deg/Tuple/Enc, LDPC/HDPC construction and GF(256) written from the RFC text in the harness"],
        vec![],
    )
}
