//! C07 — results depend only on the inputs, not on build, CPU, back-end or caching.
//! `workload=record`: execute the seeded case script under every configuration this build can
//! express and append `case op digest` lines to one log per configuration.
//! `workload=compare`: offline checker requiring all logs of a script to be line-for-line equal.
#![allow(non_snake_case)]
use super::util::*;
use crate::common::*;
use crate::refmodel as rm;
use raptorq::{Decoder, EncodingPacket, ObjectTransmissionInformation as Oti, SourceBlockDecoder, SourceBlockEncoder, SourceBlockEncodingPlan};
use std::collections::BTreeMap;
use std::path::PathBuf;

#[derive(Clone)]
pub struct Case7 {
    pub id: usize,
    pub K: usize,
    pub T: usize,
    pub data_seed: u64,
    pub repair_esis: Vec<u32>,
    pub arrivals: Vec<u32>,
    pub batch: Vec<u32>,
}

pub fn script(seed: u64, name: &str, quick: bool) -> Vec<Case7> {
    let mut rng = Rng::derive(seed, 0x0707, match name {
        "big" => 1,
        "hostile" => 2,
        "mid" => 3,
        "many" => 4,
        _ => 0,
    });
    let mut ks: Vec<usize> = vec![];
    if name == "hostile" {
        // the block sizes that own an overflow-sensitive ISI (C15): one case each, every build
        ks.push(989);
        if !quick {
            ks.push(2195);
        }
    } else if name == "big" {
        ks.extend([4000, 10000]);
        if !quick {
            ks.extend([3970, 6589, 20000]);
        }
    } else if name == "many" {
        // many small decodes in one default configuration per build: a divergence between builds that
        // needs a particular received set (one in a few hundred) shows up here
        for _ in 0..if quick { 3000 } else { 20000 } {
            ks.push(rng.range(5, 60) as usize);
        }
    } else if name == "mid" {
        // large enough for several 64-bit words of dense columns per row (u > 64 from K ~ 1000) and
        // still cheap on the dense back-end, so dense and sparse are compared there too
        ks.extend([477, 989, 1000, 1300, 1649, 2195]);
        if !quick {
            ks.extend([845, 860, 1673, 2000, 3000]);
        }
    } else {
        ks.extend(1..=40);
        ks.extend([100, 126, 127, 249, 250, 251, 300]);
        if !quick {
            ks.extend([41, 55, 64, 99, 101, 150, 200, 299]);
        }
    }
    let mut out = vec![];
    let reps = if name != "common" { 1 } else if quick { 2 } else { 4 };
    for &K in &ks {
        for rep in 0..reps {
            let p = rm::params(K);
            let T = match rep % 4 {
                0 => 1 + (K * 7 + rep) % 70,
                1 => 64 + rng.below(66) as usize,
                2 => rng.range(1, 8) as usize,
                _ => rng.range(1, 200) as usize,
            };
            let T = if name != "common" { rng.range(1, 9) as usize } else { T };
            // two block sizes of the common script carry huge symbols in their first repetition (plan replay,
            // direct solve and every kernel on symbols of tens of kilobytes, in every configuration)
            let T = if name == "common" && rep == 0 && K == 12 { 40001 } else if name == "common" && rep == 0 && K == 26 { 65528 } else { T };
            // repair ESIs whose packets are digested: the first few, random ones, the top ones, the
            // overflow-sensitive ones (C15)
            let mut repair_esis: Vec<u32> = (0..6).map(|i| K as u32 + i).collect();
            for _ in 0..10 {
                repair_esis.push(rng.range(K as u64, (1 << 24) - 1) as u32);
            }
            repair_esis.push((1 << 24) - 1);
            for X in super::c15::hostile_isis(&p) {
                let e = X as i64 - (p.Kp - K) as i64;
                if e >= K as i64 && e < 1 << 24 {
                    repair_esis.push(e as u32);
                }
            }
            // arrival sequence: some surviving source symbols + repair symbols with 0-2 overhead, so
            // rank-deficient prefixes (outcome None) occur in the script too
            let kept = match rng.below(4) {
                0 => 0,
                1 => K - 1,
                _ => rng.below(K as u64) as usize,
            };
            let mut src: Vec<u32> = (0..K as u32).collect();
            rng.shuffle(&mut src);
            let mut arrivals: Vec<u32> = src[..kept].to_vec();
            let over = rng.below(3) as usize;
            let mut used: std::collections::HashSet<u32> = arrivals.iter().copied().collect();
            while arrivals.len() < K + over {
                let e = if rng.chance(1, 3) { K as u32 + rng.below(2 * K as u64 + 8) as u32 } else { rng.range(K as u64, (1 << 24) - 1) as u32 };
                if used.insert(e) {
                    arrivals.push(e);
                }
            }
            if name == "hostile" {
                for &e in repair_esis.iter().rev().take(2) {
                    if used.insert(e) {
                        arrivals.push(e);
                    }
                }
            }
            rng.shuffle(&mut arrivals);
            // a duplicate in the middle
            if arrivals.len() > 2 {
                let d = arrivals[0];
                arrivals.insert(arrivals.len() / 2, d);
            }
            // one batch with enough overhead for the GF(2)-only attempt
            let mut batch: Vec<u32> = src[..kept.min(K.saturating_sub(1))].to_vec();
            let mut used: std::collections::HashSet<u32> = batch.iter().copied().collect();
            while batch.len() < K + p.H + rng.below(3) as usize {
                let e = rng.range(K as u64, (1 << 24) - 1) as u32;
                if used.insert(e) {
                    batch.push(e);
                }
            }
            out.push(Case7 { id: out.len(), K, T, data_seed: rng.next(), repair_esis, arrivals, batch });
        }
    }
    out
}

#[derive(Clone, Copy, PartialEq, Eq, Debug)]
pub struct Config {
    pub isa: u8,   // 0 = uncapped native dispatch, 1 avx512, 2 avx2, 3 ssse3, 4 portable
    pub thr: u32,  // sparse threshold
    pub route: u8, // 0 new, 1 explicit plan, 2 unplanned
}
const ISA_NAMES: [&str; 5] = ["native", "avx512", "avx2", "ssse3", "portable"];
const ROUTE_NAMES: [&str; 3] = ["new", "plan", "unplanned"];
fn thr_name(t: u32) -> String {
    if t == u32::MAX {
        "inf".into()
    } else {
        t.to_string()
    }
}
pub fn build_name() -> &'static str {
    if !cfg!(feature = "full") {
        "nostd"
    } else if cfg!(debug_assertions) {
        "checked"
    } else {
        "release"
    }
}
impl Config {
    fn name(&self) -> String {
        format!("{}-{}-thr{}-{}", build_name(), ISA_NAMES[self.isa as usize], thr_name(self.thr), ROUTE_NAMES[self.route as usize])
    }
}

#[cfg(feature = "full")]
fn set_isa(isa: u8) -> bool {
    use raptorq::verif::verif_kernels::{self as vk, Isa};
    let i = match isa {
        0 => None,
        1 => Some(Isa::Avx512),
        2 => Some(Isa::Avx2),
        3 => Some(Isa::Ssse3),
        _ => Some(Isa::Portable),
    };
    if let Some(i) = i {
        if !vk::supported(i) {
            return false;
        }
    }
    vk::set_cap(i);
    true
}
#[cfg(not(feature = "full"))]
fn set_isa(isa: u8) -> bool {
    isa == 4 // the no_std build has only the portable kernels
}

fn dig(h: u64) -> String {
    format!("{:016x}", h)
}

/// executes one case under one configuration; returns its log lines
fn exec(c: &Case7, cfg: Config) -> Vec<String> {
    let mut lines = vec![];
    let mut rng = Rng::new(c.data_seed);
    let data = rng.bytes(c.K * c.T);
    let oti = Oti::new((c.K * c.T) as u64, c.T as u16, 1, 1, 1);
    let K = c.K;
    let enc = guarded(|| match cfg.route {
        0 => SourceBlockEncoder::new(0, &oti, &data),
        1 => SourceBlockEncoder::with_encoding_plan(0, &oti, &data, &SourceBlockEncodingPlan::verif_generate(K as u16, cfg.thr)),
        _ => SourceBlockEncoder::verif_new_unplanned(0, &oti, &data, cfg.thr),
    });
    let enc = match enc {
        Ok(e) => e,
        Err(m) => {
            lines.push(format!("{} enc PANIC {}", c.id, short(&m, 80)));
            return lines;
        }
    };
    let mk = |e: u32, src: &[EncodingPacket]| if (e as usize) < K { src[e as usize].clone() } else { enc.repair_packets(e - K as u32, 1).pop().unwrap() };
    let r = guarded(|| {
        let src = enc.source_packets();
        let rep: Vec<EncodingPacket> = c.repair_esis.iter().map(|&e| mk(e, &src)).collect();
        (digest_packets(&src), digest_packets(&rep), src)
    });
    let src = match r {
        Ok((ds, dr, src)) => {
            lines.push(format!("{} K={} T={} source_packets {}", c.id, c.K, c.T, dig(ds)));
            lines.push(format!("{} repair_packets {}", c.id, dig(dr)));
            src
        }
        Err(m) => {
            lines.push(format!("{} packets PANIC {}", c.id, short(&m, 80)));
            return lines;
        }
    };
    // packet-by-packet decode through the object decoder
    let r = guarded(|| {
        let mut d = Decoder::new(oti);
        d.verif_set_sparse_threshold(cfg.thr);
        let mut pattern = String::new();
        let mut out: Option<Vec<u8>> = None;
        for &e in &c.arrivals {
            let r = d.decode(mk(e, &src));
            pattern.push(if r.is_some() { '1' } else { '0' });
            if out.is_none() {
                out = r;
            }
        }
        (pattern, out)
    });
    match r {
        Ok((pat, out)) => {
            let mut h = H64::new();
            match &out {
                Some(v) => {
                    h.bytes(v);
                }
                None => {
                    h.u64(0xdead);
                }
            }
            lines.push(format!("{} decode outcome={} bytes={} correct={}", c.id, pat, dig(h.get()), out.as_deref() == Some(&data[..]) || out.is_none()));
        }
        Err(m) => lines.push(format!("{} decode PANIC {}", c.id, short(&m, 80))),
    }
    // one-shot block decode with overhead (GF(2)-only attempt and its fall-back)
    let r = guarded(|| {
        let mut d = SourceBlockDecoder::new(0, &oti, (c.K * c.T) as u64);
        d.verif_set_sparse_threshold(cfg.thr);
        d.decode(c.batch.iter().map(|&e| mk(e, &src)))
    });
    match r {
        Ok(out) => {
            let mut h = H64::new();
            match &out {
                Some(v) => {
                    h.bytes(v);
                }
                None => {
                    h.u64(0xdead);
                }
            }
            lines.push(format!("{} batch_decode some={} bytes={}", c.id, out.is_some(), dig(h.get())));
        }
        Err(m) => lines.push(format!("{} batch_decode PANIC {}", c.id, short(&m, 80))),
    }
    lines
}

fn log_dir(ctx: &Ctx) -> PathBuf {
    ctx.args.root.join(format!("evidence/tmp/c07-{}", ctx.seed()))
}

fn configs(quick: bool) -> Vec<Config> {
    let thrs = [0u32, 250, u32::MAX];
    let mut v = vec![];
    if !cfg!(feature = "full") {
        for &thr in &thrs {
            for route in 0..3 {
                v.push(Config { isa: 4, thr, route });
            }
        }
        return v;
    }
    for isa in 0..5u8 {
        for (ti, &thr) in thrs.iter().enumerate() {
            for route in 0..3u8 {
                // the checked build is slower: quick keeps a pairwise-covering subset there
                if cfg!(debug_assertions) && quick && (isa as usize + ti + route as usize) % 3 != 0 {
                    continue;
                }
                v.push(Config { isa, thr, route });
            }
        }
    }
    v
}

fn record(ctx: &Ctx) -> i32 {
    let dir = log_dir(ctx);
    let _ = std::fs::create_dir_all(&dir);
    // remove this build's stale logs
    if let Ok(rd) = std::fs::read_dir(&dir) {
        for e in rd.flatten() {
            if e.file_name().to_string_lossy().starts_with(&format!("{}-", build_name())) {
                let _ = std::fs::remove_file(e.path());
            }
        }
    }
    let only: Option<(String, usize)> = ctx.args.replay.as_ref().map(|p| {
        let j = parse_json(&std::fs::read_to_string(p).expect("replay file")).expect("json");
        let c = j.get("case").unwrap();
        (c.st("script").to_string(), c.u("case_id") as usize)
    });
    let mut scripts = vec!["hostile", "common", "many"];
    if build_name() == "release" {
        scripts.push("mid");
        scripts.push("big");
    }
    let mut n_cfg = 0;
    let mut n_ops = 0usize;
    let mut skipped = vec![];
    for sname in scripts {
        let mut sc = script(ctx.seed(), sname, ctx.args.quick());
        if let Some((s, id)) = &only {
            if s != sname {
                continue;
            }
            sc.retain(|c| c.id == *id);
        }
        let cfgs: Vec<Config> = if sname == "hostile" || sname == "many" {
            // one configuration per build: default dispatch, default threshold, default route
            vec![Config { isa: if cfg!(feature = "full") { 0 } else { 4 }, thr: 250, route: 0 }]
        } else if sname == "big" {
            configs(ctx.args.quick()).into_iter().filter(|c| c.thr != u32::MAX && (c.isa + c.route) % 2 == 0).collect()
        } else if sname == "mid" {
            configs(ctx.args.quick()).into_iter().filter(|c| (c.isa + c.route) % 2 == 0).collect()
        } else {
            configs(ctx.args.quick())
        };
        for cfg in cfgs {
            if !set_isa(cfg.isa) {
                skipped.push(cfg.name());
                continue;
            }
            let lines: Vec<std::sync::Mutex<Vec<String>>> = (0..sc.len()).map(|_| std::sync::Mutex::new(vec![])).collect();
            par_for(sc.len(), |i| {
                *lines[i].lock().unwrap() = exec(&sc[i], cfg);
            });
            let mut text = String::new();
            for l in &lines {
                for s in l.lock().unwrap().iter() {
                    text.push_str(s);
                    text.push('\n');
                    n_ops += 1;
                }
            }
            std::fs::write(dir.join(format!("{}.{}.log", cfg.name(), sname)), text).expect("write log");
            n_cfg += 1;
            ctx.nontrivial((n_cfg as u64) << 8 | build_name().len() as u64);
            #[cfg(feature = "full")]
            if n_cfg % 6 == 0 {
                raptorq::verif::verif_cache::clear();
            }
        }
        // results must not depend on what a thread computed before: the common script once more on a single
        // fresh thread in descending case order (block sizes falling from one Table-2 row into the previous
        // one), default configuration; logged like any other configuration
        if sname == "common" && only.is_none() {
            let cfg = Config { isa: if cfg!(feature = "full") { 0 } else { 4 }, thr: 250, route: 0 };
            if set_isa(cfg.isa) {
                #[cfg(feature = "full")]
                raptorq::verif::verif_cache::clear();
                let mut lines: Vec<Vec<String>> = vec![vec![]; sc.len()];
                std::thread::scope(|s| {
                    s.spawn(|| {
                        for i in (0..sc.len()).rev() {
                            lines[i] = exec(&sc[i], cfg);
                        }
                    });
                });
                let mut text = String::new();
                for l in &lines {
                    for s in l {
                        text.push_str(s);
                        text.push('\n');
                        n_ops += 1;
                    }
                }
                std::fs::write(dir.join(format!("{}+descending_single_thread.{}.log", cfg.name(), sname)), text).expect("write log");
                n_cfg += 1;
            }
        }
        ctx.sample(|| J::obj(vec![("script", J::s(sname)), ("cases", J::i(sc.len())), ("first_case", J::s(sc.first().map(|c| format!("K={} T={} arrivals={:?}", c.K, c.T, &c.arrivals[..c.arrivals.len().min(12)])).unwrap_or_default()))]));
    }
    set_isa(if cfg!(feature = "full") { 0 } else { 4 });
    ctx.eval(n_ops);
    ctx.nontrivial(1);
    ctx.nontrivial(2);
    ctx.cov("build", J::s(build_name()));
    ctx.cov("configurations_recorded", J::i(n_cfg));
    ctx.cov("configurations_skipped_isa_not_on_host", J::A(skipped.iter().map(|s| J::s(s.clone())).collect()));
    ctx.cov("log_lines_written", J::i(n_ops));
    ctx.finish("recording part: executes the seeded case script under every (ISA cap, sparse threshold, plan route) configuration of this build and writes one event log per configuration; the verdict is made by the compare part", &[], vec![])
}

fn compare(ctx: &Ctx) -> i32 {
    let dir = log_dir(ctx);
    let mut by_script: BTreeMap<String, Vec<(String, Vec<String>)>> = BTreeMap::new();
    if let Ok(rd) = std::fs::read_dir(&dir) {
        let mut names: Vec<_> = rd.flatten().map(|e| e.path()).collect();
        names.sort();
        for p in names {
            let f = p.file_name().unwrap().to_string_lossy().to_string();
            if let Some(stem) = f.strip_suffix(".log") {
                let (cfgname, sname) = stem.rsplit_once('.').unwrap();
                let text = std::fs::read_to_string(&p).unwrap_or_default();
                by_script.entry(sname.to_string()).or_default().push((cfgname.to_string(), text.lines().map(|s| s.to_string()).collect()));
            }
        }
    }
    let mut builds = std::collections::BTreeSet::new();
    let mut n_cmp = 0usize;
    let mut n_logs = 0;
    let mut isas = std::collections::BTreeSet::new();
    for (sname, logs) in &by_script {
        n_logs += logs.len();
        for (cfg, _) in logs {
            builds.insert(cfg.split('-').next().unwrap().to_string());
            isas.insert(cfg.split('-').nth(1).unwrap().to_string());
        }
        let (ref_name, ref_lines) = &logs[0];
        for (i, l) in ref_lines.iter().enumerate() {
            // a line whose digest was produced by >= 2 configurations is one compared (case, op)
            if logs.len() >= 2 {
                let mut h = H64::new();
                h.bytes(sname.as_bytes()).u64(i as u64);
                ctx.nontrivial(h.get());
            }
            if l.contains(" PANIC ") {
                ctx.violation(format!("C07 panic {sname} {}", short(l, 40)), format!("script {sname}: the library panicked on a valid input in configuration {ref_name} (no result to compare): {l}"), J::obj(vec![("script", J::s(sname.clone())), ("case_id", J::i(l.split(' ').next().unwrap().parse::<usize>().unwrap_or(0)))]));
            }
            if l.contains(" correct=false") {
                ctx.violation(format!("C07 wrong-bytes {sname} {}", short(l, 40)), format!("script {sname}: configuration {ref_name} decoded wrong bytes: {l}"), J::obj(vec![("script", J::s(sname.clone())), ("case_id", J::i(l.split(' ').next().unwrap().parse::<usize>().unwrap_or(0)))]));
            }
        }
        for (name, lines) in logs.iter().skip(1) {
            n_cmp += lines.len().min(ref_lines.len());
            let first = lines.iter().zip(ref_lines.iter()).position(|(a, b)| a != b).or(if lines.len() != ref_lines.len() { Some(lines.len().min(ref_lines.len())) } else { None });
            if let Some(k) = first {
                let a = ref_lines.get(k).cloned().unwrap_or_else(|| "<missing>".into());
                let b = lines.get(k).cloned().unwrap_or_else(|| "<missing>".into());
                let case_id: usize = a.split(' ').next().and_then(|s| s.parse().ok()).or_else(|| b.split(' ').next().and_then(|s| s.parse().ok())).unwrap_or(0);
                let op = a.split(' ').nth(1).unwrap_or("?").to_string();
                // attribute the difference: which other configurations agree with which side
                let agree_ref = logs.iter().filter(|(_, l)| l.get(k) == Some(&a)).count();
                let agree_other = logs.iter().filter(|(_, l)| l.get(k) == Some(&b)).count();
                ctx.violation(
                    format!("C07 differ script={sname} case={case_id} op={op} cfg={name}"),
                    format!("script {sname}, case {case_id}: configurations disagree on the same input. {ref_name} (and {} others) logged `{}`; {name} (and {} others) logged `{}`", agree_ref - 1, short(&a, 160), agree_other - 1, short(&b, 160)),
                    J::obj(vec![("script", J::s(sname.clone())), ("case_id", J::i(case_id)), ("config_a", J::s(ref_name.clone())), ("config_b", J::s(name.clone())), ("line_a", J::s(a)), ("line_b", J::s(b))]),
                );
            }
        }
    }
    ctx.eval(n_cmp);
    ctx.cov("logs_compared", J::i(n_logs));
    ctx.cov("builds_present", J::A(builds.iter().map(|b| J::s(b.clone())).collect()));
    ctx.cov("isa_levels_present", J::A(isas.iter().map(|b| J::s(b.clone())).collect()));
    ctx.cov("line_comparisons", J::i(n_cmp));
    ctx.sample(|| J::obj(vec![("log_line", J::s(by_script.values().next().and_then(|l| l[0].1.first().cloned()).unwrap_or_default())), ("from", J::s(by_script.values().next().map(|l| l[0].0.clone()).unwrap_or_default()))]));
    if ctx.args.replay.is_none() && ctx.n_violations() == 0 {
        for b in ["release", "checked", "nostd"] {
            if !builds.contains(b) {
                ctx.inconclusive(format!("no log from the {b} build"));
            }
        }
        ctx.floor("event_logs", n_logs as u64, 30);
    }
    ctx.finish(
        "one deterministic case script (K in 1..40, 100, 126, 127, 249, 250, 251, 300; T over residues mod 64; packets for first/random/top/overflow-sensitive ESIs; packet-by-packet decode of an arrival sequence with 0-2 overhead and a duplicate; one-shot block decode with overhead >= H) is executed by every configuration = build {release, checked (debug assertions + overflow checks), no_std} x ISA {native dispatch, AVX-512, AVX2, SSSE3, portable via the cap hook; no_std: portable} x sparse threshold {0,250,inf} on both encoder and decoder x plan route {new (cached / direct in no_std), explicit plan, unplanned}; release additionally runs a script with K in 477..2195 (3000) on all three thresholds (dense vs sparse with several words of dense columns per row) and one with K up to 10000 (20000) on the sparse thresholds; a panic on a valid input is reported even when every configuration panics alike; every build also runs 3 000 / 20 000 small random cases (K 5..60) in its default configuration (script `many`: divergences that need a particular received set) and the common script once on a single fresh thread in descending case order (history independence); each configuration logs `case op digest` and the offline checker requires all logs of a script to be line-for-line equal. non-trivial = a (case, op) line whose digest was produced by at least two configurations; distinct by (script, line)",
        &["NEON kernels cannot run on this x86-64 host", "serde/python features are not part of the property"],
        vec![],
    )
}

pub fn run(ctx: &Ctx) -> i32 {
    match ctx.args.ex("workload") {
        Some("compare") => compare(ctx),
        _ => record(ctx),
    }
}
