//! Linear-time certification of a set of intermediate symbols against the reference model's
//! constraint relations (RFC 6330 5.3.3.3 pre-code relations + 5.3.5.3 LT relations).
#![allow(non_snake_case)]
use crate::refmodel::{self as rm, Gf, Params};

/// Pre-computed reference relations for one K' (shared across data / routes)
pub struct Relations {
    pub p: Params,
    pub ldpc: Vec<Vec<usize>>,
    pub hdpc: Vec<Vec<u8>>,
}

impl Relations {
    pub fn new(gf: &Gf, K: usize) -> Relations {
        let p = rm::params(K);
        Relations { p, ldpc: rm::ldpc_rows(&p), hdpc: rm::hdpc_rows(&p, gf) }
    }
}

/// `c(i)` = intermediate symbol i (0..L), each T bytes; `source` = the K source symbols.
/// Returns Err(description of the first violated relation).
pub fn certify<'a>(gf: &Gf, rel: &Relations, K: usize, T: usize, c: &dyn Fn(usize) -> &'a [u8], source: &dyn Fn(usize) -> &'a [u8]) -> Result<(), String> {
    let p = &rel.p;
    let mut acc = vec![0u8; T];
    // LDPC: xor of the listed intermediate symbols is zero
    for (r, cols) in rel.ldpc.iter().enumerate() {
        acc.fill(0);
        for &col in cols {
            let s = c(col);
            if s.len() != T {
                return Err(format!("intermediate symbol {col} has {} bytes, expected {T}", s.len()));
            }
            for k in 0..T {
                acc[k] ^= s[k];
            }
        }
        if acc.iter().any(|&b| b != 0) {
            return Err(format!("LDPC relation {r} (of S={}) is not satisfied", p.S));
        }
    }
    // HDPC: sum over GF(256) of coefficient * symbol is zero
    for (r, row) in rel.hdpc.iter().enumerate() {
        acc.fill(0);
        for (col, &coef) in row.iter().enumerate() {
            if coef == 0 {
                continue;
            }
            let s = c(col);
            let m = &gf.mul[coef as usize];
            for k in 0..T {
                acc[k] ^= m[s[k] as usize];
            }
        }
        if acc.iter().any(|&b| b != 0) {
            return Err(format!("HDPC relation {r} (of H={}) is not satisfied", p.H));
        }
    }
    // LT: Enc[K', C, Tuple[K', X]] = source symbol X for X < K, zero for K <= X < K'
    for X in 0..p.Kp {
        acc.fill(0);
        for i in rm::enc_indices(p, X as u64) {
            let s = c(i);
            for k in 0..T {
                acc[k] ^= s[k];
            }
        }
        if X < K {
            if acc[..] != source(X)[..] {
                return Err(format!("LT relation: Enc over the intermediate symbols for ISI {X} does not reproduce source symbol {X}"));
            }
        } else if acc.iter().any(|&b| b != 0) {
            return Err(format!("LT relation: padding symbol ISI {X} (K={K}, K'={}) is not zero", p.Kp));
        }
    }
    Ok(())
}

/// reference encoding symbol for ISI X from certified intermediate symbols
pub fn ref_symbol<'a>(p: &Params, T: usize, c: &dyn Fn(usize) -> &'a [u8], X: u64) -> Vec<u8> {
    let mut out = vec![0u8; T];
    for i in rm::enc_indices(p, X) {
        let s = c(i);
        for k in 0..T {
            out[k] ^= s[k];
        }
    }
    out
}
