//! C12 — unsafe code never touches memory outside the buffers it was given.
//! Workloads (selected by `workload=`), each meant to run under a different memory monitor:
//!   guard    native: kernel operands flush against PROT_NONE guard pages (SIGSEGV = violation)
//!   kernels  canary + value sweep of every kernel (sized by maxlen/stride) - Miri / ASan / valgrind
//!   slab     SymbolSlab paired borrow: all ordered pairs, with and without reorder mapping
//!   octet    all 65 536 operand pairs through the unchecked table look-ups (C10's enumeration)
//!   codec    whole encode/decode cases (C01 generator)
//!   matrix   short dense/sparse operation sequences (C16 walker)
#![allow(non_snake_case)]
use super::kern::*;
use crate::common::*;
use crate::refmodel::Gf;
use raptorq::verif::Octet;
use raptorq::SymbolSlab;
use raptorq::verif::BinaryOctetVec;
use std::sync::atomic::{AtomicU64, Ordering::Relaxed};

// ---------------------------------------------------------------------------------------------
// guard-page monitor
// ---------------------------------------------------------------------------------------------
#[cfg(not(miri))]
mod guard {
    use super::*;
    use raptorq::verif::verif_kernels::Isa;
    use raptorq::verif::BinaryOctetVec;
    use std::sync::atomic::{AtomicUsize, Ordering::SeqCst};
    extern "C" {
        fn mmap(addr: *mut u8, len: usize, prot: i32, flags: i32, fd: i32, off: i64) -> *mut u8;
        fn mprotect(addr: *mut u8, len: usize, prot: i32) -> i32;
        fn signal(signum: i32, handler: usize) -> usize;
        fn write(fd: i32, buf: *const u8, n: usize) -> isize;
        fn open(path: *const u8, flags: i32, mode: u32) -> i32;
        fn close(fd: i32) -> i32;
        fn _exit(code: i32) -> !;
    }
    const PAGE: usize = 4096;
    pub struct Guarded {
        base: *mut u8,
        pages: usize,
    }
    impl Guarded {
        /// [PROT_NONE page][data pages][PROT_NONE page]
        pub fn new(pages: usize) -> Guarded {
            unsafe {
                let total = (pages + 2) * PAGE;
                let base = mmap(std::ptr::null_mut(), total, 3, 0x22, -1, 0);
                assert!(!base.is_null() && base as isize != -1, "harness: mmap failed");
                assert_eq!(mprotect(base, PAGE, 0), 0, "harness: mprotect failed");
                assert_eq!(mprotect(base.add((pages + 1) * PAGE), PAGE, 0), 0, "harness: mprotect failed");
                Guarded { base, pages }
            }
        }
        /// `len` bytes ending flush against the trailing guard page
        pub fn tail(&mut self, len: usize) -> *mut u8 {
            unsafe { self.base.add((self.pages + 1) * PAGE - len) }
        }
        /// first byte right after the leading guard page
        pub fn head(&mut self) -> *mut u8 {
            unsafe { self.base.add(PAGE) }
        }
    }

    pub static CUR: [AtomicUsize; 6] = [AtomicUsize::new(0), AtomicUsize::new(0), AtomicUsize::new(0), AtomicUsize::new(0), AtomicUsize::new(0), AtomicUsize::new(0)];
    static mut REPLAY_PATH: [u8; 512] = [0; 512];
    static mut PROP_SEED: u64 = 0;

    struct Buf {
        b: [u8; 700],
        n: usize,
    }
    impl core::fmt::Write for Buf {
        fn write_str(&mut self, s: &str) -> core::fmt::Result {
            for &c in s.as_bytes() {
                if self.n < self.b.len() {
                    self.b[self.n] = c;
                    self.n += 1;
                }
            }
            Ok(())
        }
    }

    extern "C" fn on_segv(_sig: i32) {
        use core::fmt::Write;
        let (isa, op, len, place, c, seq) = (CUR[0].load(Relaxed), CUR[1].load(Relaxed), CUR[2].load(Relaxed), CUR[3].load(Relaxed), CUR[4].load(Relaxed), CUR[5].load(Relaxed));
        let isas = ["public-dispatcher", "avx512", "avx2", "ssse3", "portable"];
        let ops = ["add_assign", "mulassign_scalar", "fused_addassign_mul_scalar", "fused_addassign_mul_scalar_binary"];
        let places = ["operands end flush against a guard page", "operands start flush after a guard page"];
        unsafe {
            let mut j = Buf { b: [0; 700], n: 0 };
            let _ = write!(j, "{{\"property_id\":\"C12\",\"part\":\"guard\",\"sig\":\"C12 guard-page fault {}/{} len={} placement={} scalar={}\",\"what\":\"SIGSEGV on a guard page\",\"case\":{{\"kind\":\"guard\",\"isa\":\"{}\",\"op\":\"{}\",\"len\":{},\"placement\":{},\"scalar\":{},\"seed\":{},\"call_number\":{}}}}}\n", isas[isa], ops[op], len, place, c, isas[isa], ops[op], len, place, c, core::ptr::addr_of!(PROP_SEED).read(), seq);
            let path = core::ptr::addr_of!(REPLAY_PATH) as *const u8;
            let fd = open(path, 0o1 | 0o100 | 0o1000, 0o644);
            if fd >= 0 {
                write(fd, j.b.as_ptr(), j.n);
                close(fd);
            }
            let mut m = Buf { b: [0; 700], n: 0 };
            let _ = write!(m, "VIOLATION property=C12 replay=");
            write(1, m.b.as_ptr(), m.n);
            let mut k = 0;
            while *path.add(k) != 0 {
                k += 1;
            }
            write(1, path, k);
            let mut m = Buf { b: [0; 700], n: 0 };
            let _ = write!(m, "\n  what: kernel {}/{} touched memory outside its operands: page fault on a PROT_NONE guard page (len={}, {}, scalar={}, call #{})\n", isas[isa], ops[op], len, places[place], c, seq);
            write(1, m.b.as_ptr(), m.n);
            _exit(1);
        }
    }

    pub fn install(ctx: &Ctx) {
        let dir = ctx.args.root.join("evidence/replay");
        let _ = std::fs::create_dir_all(&dir);
        let p = dir.join(format!("C12-guard-{}-segv.json", ctx.seed()));
        let b = p.to_string_lossy().into_owned().into_bytes();
        unsafe {
            let dst = core::ptr::addr_of_mut!(REPLAY_PATH) as *mut u8;
            for (i, &c) in b.iter().take(510).enumerate() {
                *dst.add(i) = c;
            }
            PROP_SEED = ctx.seed();
            signal(11, on_segv as *const () as usize); // SIGSEGV
            signal(7, on_segv as *const () as usize); // SIGBUS
        }
    }

    pub fn isa_idx(i: Option<Isa>) -> usize {
        match i {
            None => 0,
            Some(Isa::Avx512) => 1,
            Some(Isa::Avx2) => 2,
            Some(Isa::Ssse3) => 3,
            Some(Isa::Portable) => 4,
        }
    }

    pub fn sweep(ctx: &Ctx, only: Option<(Option<Isa>, Op, usize, usize, u8)>) {
        let gf = Gf::new();
        install(ctx);
        let mut gd = Guarded::new(17);
        let mut gs = Guarded::new(17);
        let mut gb = Guarded::new(17);
        let mut rng = Rng::derive(ctx.seed(), 0x1212, 0);
        let max_len = ctx.args.ex_u64("maxlen", 320) as usize;
        let mut calls = 0u64;
        let mut per: std::collections::BTreeMap<String, u64> = Default::default();
        let mut want = vec![];
        let (mut d0, mut s0, mut bits) = (vec![], vec![], vec![]);
        for isa in supported_isas() {
            for (oi, &op) in OPS.iter().enumerate() {
                if !has_kernel(isa, op) {
                    continue;
                }
                // long operands too (huge symbols: up to the largest symbol size 65 535), around the page size
                // and the 256 / 512 / 1024-byte strides an unrolled or pipelined kernel might use
                const LONG: [usize; 26] = [511, 512, 513, 767, 1000, 1023, 1024, 1025, 1279, 2047, 2048, 2049, 3000, 4095, 4096, 4097, 4104, 4160, 4352, 5000, 8191, 8192, 8200, 12345, 16391, 65535];
                for len in (0..=max_len).chain(LONG.iter().copied().filter(|_| only.is_some() || max_len >= 320)) {
                    for place in 0..2usize {
                        let scalars: Vec<u8> = if len > max_len { vec![2, 0x1d, rng.next() as u8 | 2] } else if ctx.args.quick() { vec![0, 1, 2, 0x1d, 0xff, rng.next() as u8, rng.next() as u8] } else { (0..24).map(|k| if k < 5 { [0u8, 1, 2, 0x80, 0xff][k] } else { rng.next() as u8 }).collect() };
                        for c in scalars {
                            if !scalar_ok(isa, op, c) {
                                continue;
                            }
                            if let Some(o) = only {
                                if o != (isa, op, len, place, c) {
                                    continue;
                                }
                            }
                            d0.resize(len, 0);
                            s0.resize(len, 0);
                            bits.resize(len, 0);
                            fill_content(&mut rng, calls, &mut d0);
                            fill_content(&mut rng, calls / 6, &mut s0);
                            // packed-bit operand kinds as in C11: dense random, all zero, all one, sparse, and
                            // "last word zero" / "first word zero" (whole words the kernels may skip)
                            let bkind = calls % 6;
                            let pad = (64 - len % 64) % 64;
                            for (k, b) in bits.iter_mut().enumerate() {
                                let word = (k + pad) / 64;
                                let nwords = (len + pad) / 64;
                                *b = match bkind {
                                    1 => 0,
                                    2 => 1,
                                    3 => (rng.below(48) == 0) as u8,
                                    4 => (word + 1 != nwords) as u8 & (rng.next() & 1) as u8,
                                    5 => (word != 0) as u8 & (rng.next() & 1) as u8,
                                    _ => (rng.next() & 1) as u8,
                                };
                            }
                            reference(&gf, op, &d0, &s0, &bits, c, &mut want);
                            let words = pack_bits(&bits);
                            // log the call BEFORE making it, so a fault can be attributed
                            CUR[0].store(isa_idx(isa), Relaxed);
                            CUR[1].store(oi, Relaxed);
                            CUR[2].store(len, Relaxed);
                            CUR[3].store(place, Relaxed);
                            CUR[4].store(c as usize, Relaxed);
                            CUR[5].store(calls as usize, SeqCst);
                            unsafe {
                                let (dp, sp) = if place == 0 { (gd.tail(len), gs.tail(len)) } else { (gd.head(), gs.head()) };
                                let d = std::slice::from_raw_parts_mut(dp, len);
                                let s = std::slice::from_raw_parts_mut(sp, len);
                                d.copy_from_slice(&d0);
                                s.copy_from_slice(&s0);
                                // the packed bit vector lives in guarded memory as well: its u64 words end flush
                                // against (or start right after) a guard page. The Vec is never dropped/reallocated.
                                let bv = if op == Op::FmaBin {
                                    let wp = if place == 0 { gb.tail(words.len() * 8) } else { gb.head() } as *mut u64;
                                    std::ptr::copy_nonoverlapping(words.as_ptr(), wp, words.len());
                                    Some(std::mem::ManuallyDrop::new(BinaryOctetVec::new(Vec::from_raw_parts(wp, words.len(), words.len()), len)))
                                } else {
                                    None
                                };
                                call(isa, op, d, s, bv.as_ref().map(|b| &**b), c);
                                if d[..] != want[..] || s[..] != s0[..] {
                                    ctx.violation(
                                        format!("C12 guard value {}/{} len={len} place={place} scalar={c}", isa_name(isa), op_name(op)),
                                        format!("kernel {}/{} len={len} (guard-page placement {place}) produced a wrong result or modified its source", isa_name(isa), op_name(op)),
                                        J::obj(vec![("kind", J::s("guard")), ("isa", J::s(isa_name(isa))), ("op", J::s(op_name(op))), ("len", J::i(len)), ("placement", J::i(place)), ("scalar", J::i(c))]),
                                    );
                                }
                            }
                            calls += 1;
                            *per.entry(format!("{}/{}", isa_name(isa), op_name(op))).or_default() += 1;
                            if len >= 1 {
                                let mut h = H64::new();
                                h.u64(isa_idx(isa) as u64).u64(oi as u64).u64(len as u64).u64(place as u64).u64(c as u64);
                                ctx.nontrivial(h.get());
                            }
                        }
                    }
                }
            }
        }
        ctx.eval(calls as usize);
        ctx.cov("guard_page_kernel_calls", J::i(calls));
        ctx.cov("guard_page_calls_per_isa_and_op", J::O(per.into_iter().map(|(k, v)| (k, J::i(v))).collect()));
        ctx.cov("guard_page_faults", J::i(0));
    }
}

// ---------------------------------------------------------------------------------------------
// kernels under an external memory monitor (Miri / ASan / valgrind): canary + value sweep
// ---------------------------------------------------------------------------------------------
fn kernels(ctx: &Ctx) {
    let gf = Gf::new();
    let maxlen = ctx.args.ex_u64("maxlen", 130) as usize;
    let stride = ctx.args.ex_u64("stride", 1) as usize;
    let shard = ctx.args.ex_u64("shard", 0) as usize;
    let boundary = ctx.args.ex("lens") == Some("boundary");
    let aligns: Vec<(usize, usize)> = if ctx.args.ex_u64("aligns", 8) >= 8 { vec![(0, 0), (1, 0), (0, 1), (3, 5), (7, 2), (15, 16), (31, 33), (63, 1)] } else { vec![(0, 0), (1, 3), (63, 1)] };
    let mut da = Arena::new(maxlen.max(1));
    let mut sa = Arena::new(maxlen.max(1));
    let mut scratch = Default::default();
    let mut n = 0usize;
    let mut item = 0usize;
    let mut per: std::collections::BTreeMap<String, u64> = Default::default();
    for isa in supported_isas() {
        for &op in &OPS {
            if !has_kernel(isa, op) {
                continue;
            }
            for len in 0..=maxlen {
                // `lens=boundary`: every length up to 40 and the lengths around each vector-width multiple
                if boundary && len > 40 && !(len % 16 <= 1 || len % 16 == 15 || len % 32 == 2) {
                    continue;
                }
                item += 1;
                if item % stride != shard {
                    continue;
                }
                for (ai, &(doff, soff)) in aligns.iter().enumerate() {
                    let mut c = ((len * 37 + ai * 11 + item) % 256) as u8;
                    while !scalar_ok(isa, op, c) {
                        c = c.wrapping_add(101);
                    }
                    let seed = splitmix(&mut (ctx.seed() ^ (item as u64) << 8 ^ ai as u64));
                    monitored_call(ctx, "C12", &gf, &mut da, &mut sa, isa, op, len, doff, soff, c, (len + ai) as u64 % 6, seed, &mut scratch);
                    n += 1;
                    if len >= 1 {
                        let mut h = H64::new();
                        h.u64(item as u64).u64(ai as u64);
                        ctx.nontrivial(h.get());
                    }
                }
                *per.entry(format!("{}/{}", isa_name(isa), op_name(op))).or_default() += aligns.len() as u64;
            }
        }
    }
    ctx.eval(n);
    ctx.cov("kernel_calls", J::i(n));
    ctx.cov("kernel_calls_per_isa_and_op", J::O(per.into_iter().map(|(k, v)| (k, J::i(v))).collect()));
    ctx.cov("isas_in_this_build", J::A(supported_isas().iter().map(|&i| J::s(isa_name(i))).collect()));
}

// ---------------------------------------------------------------------------------------------
// slab: paired borrow
// ---------------------------------------------------------------------------------------------
fn slab(ctx: &Ctx) {
    let gf = Gf::new();
    let mut rng = Rng::derive(ctx.seed(), 0x1213, 0);
    let n = 6usize;
    let mut ops = 0usize;
    let sizes: Vec<usize> = if ctx.args.ex_u64("small", 0) == 1 { vec![1, 7, 33, 64] } else { vec![1, 2, 7, 8, 16, 31, 33, 64, 65, 130] };
    for &ss in &sizes {
        for mapped in [false, true] {
            let mut slab = SymbolSlab::with_zeros(n, ss);
            let mut model: Vec<Vec<u8>> = (0..n).map(|_| rng.bytes(ss)).collect();
            for i in 0..n {
                slab.get_mut(i).copy_from_slice(&model[i]);
            }
            let mut perm: Vec<usize> = (0..n).collect();
            if mapped {
                rng.shuffle(&mut perm);
                // logical i -> physical perm[i]: the logical content is the permuted physical content
                slab.set_reorder(perm.clone());
                model = (0..n).map(|i| model[perm[i]].clone()).collect();
            }
            let case = |what: &str, d: usize, s: usize| J::obj(vec![("kind", J::s("slab")), ("what", J::s(what)), ("symbol_size", J::i(ss)), ("mapped", J::B(mapped)), ("dest", J::i(d)), ("src", J::i(s)), ("perm", J::A(perm.iter().map(|&p| J::i(p)).collect()))]);
            for d in 0..n {
                for s in 0..n {
                    if d == s {
                        // asserted precondition: must panic, never hand out aliasing slices
                        let r = guarded(|| {
                            let (a, b) = slab.get_pair_mut(d, s);
                            (a.as_ptr() as usize, b.as_ptr() as usize)
                        });
                        ops += 1;
                        if let Ok((a, b)) = r {
                            ctx.violation(format!("C12 slab alias ss={ss} mapped={mapped} d={d}"), format!("SymbolSlab::get_pair_mut({d},{d}) returned a mutable and a shared slice ({a:#x}, {b:#x}) instead of refusing"), case("alias", d, s));
                        }
                        continue;
                    }
                    let c = 2 + rng.below(254) as u8;
                    let r = guarded(|| {
                        slab.add_assign(d, s);
                        slab.fma(d, s, &Octet::new(c));
                        slab.mulassign_scalar(d, &Octet::new(c));
                    });
                    ops += 3;
                    for k in 0..ss {
                        let v = model[d][k] ^ model[s][k];
                        let v = v ^ gf.m(c, model[s][k]);
                        model[d][k] = gf.m(c, v);
                    }
                    if let Err(m) = r {
                        ctx.violation(format!("C12 slab panic ss={ss} d={d} s={s}"), format!("slab operation on ({d},{s}) panicked: {}", short(&m, 100)), case("panic", d, s));
                        return;
                    }
                    // the whole slab must equal the model: a write outside dest shows up in a neighbour
                    for i in 0..n {
                        if slab.get(i) != &model[i][..] {
                            ctx.violation(
                                format!("C12 slab content ss={ss} mapped={mapped} d={d} s={s} i={i}"),
                                format!("after add_assign/fma/mulassign_scalar(dest={d}, src={s}) on a slab of {n} symbols x {ss} bytes (reorder mapping: {mapped}) symbol {i} differs from the model ({})", if i == d { "the destination" } else { "a symbol that was not the destination was modified" }),
                                case("content", d, s),
                            );
                            return;
                        }
                    }
                    let mut h = H64::new();
                    h.u64(ss as u64).u64(mapped as u64).u64(d as u64).u64(s as u64);
                    ctx.nontrivial(h.get());
                }
            }
            // a reorder mapping that is not a permutation (two logical rows on one physical row, or an
            // entry beyond the slab): the asserted preconditions are about the *physical* rows, so the
            // paired borrow must refuse - never hand out overlapping or out-of-bounds slices
            if !mapped {
                for bad in [vec![0usize, 1, 1, 3, 4, 5], vec![0, 1, 2, 3, 4, n + 2]] {
                    let mut s2 = SymbolSlab::with_zeros(n, ss);
                    s2.set_reorder(bad.clone());
                    let (d, sidx) = if bad[2] == 1 { (1usize, 2usize) } else { (0, 5) };
                    let r = guarded(|| {
                        let (a, b) = s2.get_pair_mut(d, sidx);
                        (a.as_ptr() as usize, a.len(), b.as_ptr() as usize)
                    });
                    ops += 1;
                    if let Ok((a, l, b)) = r {
                        let overlap = a < b + l && b < a + l;
                        ctx.violation(format!("C12 slab bad-mapping ss={ss} map={bad:?}"), format!("SymbolSlab::get_pair_mut({d},{sidx}) under the reorder mapping {bad:?} on {n} symbols returned slices at {a:#x} and {b:#x} (overlapping: {overlap}) instead of refusing"), case("bad-mapping", d, sidx));
                    }
                }
            }
            // out of range indices must panic
            for (d, s) in [(n, 0), (0, n), (n + 3, n)] {
                if !mapped {
                    ops += 1;
                    if guarded(|| {
                        let _ = slab.get_pair_mut(d, s);
                    })
                    .is_ok()
                    {
                        ctx.violation(format!("C12 slab range d={d} s={s}"), format!("SymbolSlab::get_pair_mut({d},{s}) on {n} symbols did not refuse an out-of-range index"), case("range", d, s));
                    }
                }
            }
        }
    }
    ctx.eval(ops);
    ctx.cov("slab_operations", J::i(ops));
}

fn codec(ctx: &Ctx) {
    let st = super::c01::Stats::default();
    let n = ctx.args.ex_u64("n", 300) as usize;
    let max_kt = ctx.args.ex_u64("max_kt", 120) as usize;
    let max_t = ctx.args.ex_u64("max_t", 96) as usize;
    let nthreads = ctx.args.ex_u64("threads", threads() as u64) as usize;
    let shard: u64 = std::env::var("VERIF_CODEC_SHARD").ok().and_then(|s| s.parse().ok()).unwrap_or(0);
    par_for_threads(nthreads, n, |i| {
        let i = i + (shard as usize) * n;
        let c = super::c01::gen_case(ctx.seed() ^ 0x1212, i as u64, 0, max_kt, max_t);
        let rj = super::c01::case_json(ctx.seed() ^ 0x1212, i as u64, 0, max_kt, max_t, &c);
        super::c01::run_case(ctx, &c, rj.clone(), &st);
        super::c01::run_block_case(ctx, &c, rj, &st);
        ctx.eval(1);
        ctx.nontrivial(0xC0DEC000 + i as u64);
    });
    ctx.cov("codec_cases", J::i(n));
    ctx.cov("codec_decoder_calls", J::i(st.calls.load(Relaxed)));
}

fn matrix(ctx: &Ctx) {
    let n = ctx.args.ex_u64("n", 200) as usize;
    if let Some(w) = ctx.args.ex("maxw") {
        super::c16walk::WIDTH_CAP.store(w.parse().expect("maxw"), Relaxed);
    }
    let st: [std::sync::atomic::AtomicU64; 10] = Default::default();
    let nthreads = ctx.args.ex_u64("threads", threads() as u64) as usize;
    par_for_threads(nthreads, n, |i| {
        let mut x = ctx.seed().wrapping_mul(77) ^ i as u64 ^ 0x1216;
        super::c16::run_one(ctx, splitmix(&mut x), &st);
        ctx.eval(1);
    });
    ctx.cov("matrix_sequences", J::i(n));
}

/// Hostile inputs through the public interface: payloads whose length is not the symbol size,
/// operands of unequal length, out-of-range indices. Refusing (a panic) is fine, an answer is fine —
/// the only thing watched is memory: the tool running this workload (ASan / Miri / valgrind) must stay
/// silent, and an answer must never be longer than the transfer length.
fn hostile(ctx: &Ctx) {
    use raptorq::{Decoder, Encoder, EncodingPacket, ObjectTransmissionInformation as Oti, SourceBlockDecoder, SourceBlockEncoder};
    let n = ctx.args.ex_u64("n", 300) as usize;
    let nthreads = ctx.args.ex_u64("threads", threads() as u64) as usize;
    let refused = AtomicU64::new(0);
    let answered = AtomicU64::new(0);
    let kernel_probes = AtomicU64::new(0);
    par_for_threads(nthreads, n, |i| {
        let mut rng = Rng::derive(ctx.seed(), 0x1217, i as u64);
        // ---- malformed packets to the block decoder ----
        let K = *rng.pick(&[1usize, 3, 10, 11, 13, 26, 27, 40]);
        let T = *rng.pick(&[1usize, 2, 7, 8, 16, 33, 64]);
        let data = rng.bytes(K * T);
        let cfg = Oti::new((K * T) as u64, T as u16, 1, 1, 1);
        let enc = SourceBlockEncoder::new(0, &cfg, &data);
        let lost = rng.range(1, (K as u64).min(3)) as usize;
        let mut ids: Vec<u32> = (lost as u32..K as u32).collect();
        let extra = rng.below(3) as usize + if rng.chance(1, 3) { 12 } else { 0 };
        for r in 0..(lost + extra) as u32 {
            ids.push(K as u32 + r);
        }
        let src = enc.source_packets();
        let mut pk: Vec<EncodingPacket> = ids.iter().map(|&e| if (e as usize) < K { src[e as usize].clone() } else { enc.repair_packets(e - K as u32, 1).pop().unwrap() }).collect();
        // 1-2 packets get a payload of the wrong length: the last source symbol present, the last
        // repair packet, the first packet or a random one; longer by 1, 8, T, 64, 1000 bytes or shorter
        for _ in 0..rng.range(1, 2) {
            let last_src = ids.iter().rposition(|&e| (e as usize) < K);
            let which = match rng.below(4) {
                0 => last_src.unwrap_or(0),
                1 => pk.len() - 1,
                2 => 0,
                _ => rng.below(pk.len() as u64) as usize,
            };
            let (id, mut payload) = pk[which].clone().split();
            if rng.chance(3, 4) {
                let add = *rng.pick(&[1usize, 8, T, 64, 1000]);
                payload.extend(rng.bytes(add));
            } else {
                payload.truncate(rng.below(T as u64) as usize);
            }
            pk[which] = EncodingPacket::new(id, payload);
        }
        if rng.chance(1, 2) {
            rng.shuffle(&mut pk);
        }
        let one_by_one = rng.chance(1, 2);
        let r = guarded(|| {
            let mut d = SourceBlockDecoder::new(0, &cfg, (K * T) as u64);
            if one_by_one {
                let mut last = None;
                for p in pk.clone() {
                    last = d.decode(std::iter::once(p));
                }
                last
            } else {
                d.decode(pk.clone())
            }
        });
        match r {
            Err(_) => {
                refused.fetch_add(1, Relaxed);
            }
            Ok(v) => {
                answered.fetch_add(1, Relaxed);
                if let Some(v) = v {
                    if v.len() != K * T {
                        ctx.violation(format!("C12 hostile block-answer-length K={K} T={T} i={i}"), format!("K={K}, T={T}: a block decoder fed a packet with a malformed payload returned {} bytes for a {}-byte block", v.len(), K * T), J::obj(vec![("kind", J::s("hostile")), ("idx", J::i(i))]));
                    }
                }
            }
        }
        // ---- the same through the object decoder (two blocks), plus a block number out of range ----
        if i % 3 == 0 {
            let F = 2 * K * T - rng.below(T as u64) as usize;
            let data2 = rng.bytes(F);
            let cfg2 = Oti::new(F as u64, T as u16, 2, 1, 1);
            let r = guarded(|| {
                let enc2 = Encoder::new(&data2, cfg2);
                let mut all = enc2.get_encoded_packets(3);
                let w = rng.below(all.len() as u64) as usize;
                let (id, mut payload) = all[w].clone().split();
                let add = *rng.pick(&[1usize, 8, 64]);
                payload.extend(rng.bytes(add));
                all[w] = EncodingPacket::new(id, payload);
                if rng.chance(1, 4) {
                    let (_, pl) = all[0].clone().split();
                    all.push(EncodingPacket::new(raptorq::PayloadId::new(7, 0), pl));
                }
                // drop two source packets so that the solver runs
                all.remove(1);
                let mut d = Decoder::new(cfg2);
                let mut out = None;
                for p in all {
                    out = d.decode(p);
                }
                out
            });
            match r {
                Err(_) => {
                    refused.fetch_add(1, Relaxed);
                }
                Ok(v) => {
                    answered.fetch_add(1, Relaxed);
                    if let Some(v) = v {
                        if v.len() != F {
                            ctx.violation(format!("C12 hostile object-answer-length F={F} T={T} i={i}"), format!("F={F}, T={T}: an object decoder fed a packet with a malformed payload returned {} bytes", v.len()), J::obj(vec![("kind", J::s("hostile")), ("idx", J::i(i))]));
                        }
                    }
                }
            }
        }
        // ---- operands of unequal length to the public kernels and the slab ----
        let la = rng.range(0, 200) as usize;
        let lb = if rng.chance(1, 2) { la + rng.range(1, 70) as usize } else { la.saturating_sub(rng.range(1, 70) as usize) };
        if la != lb {
            for op in [Op::Add, Op::Fma, Op::FmaBin] {
                let mut d = rng.bytes(la);
                let s_ = rng.bytes(lb);
                let bits: Vec<u8> = (0..lb).map(|_| (rng.next() & 1) as u8).collect();
                let bv = BinaryOctetVec::new(pack_bits(&bits), lb);
                let _ = guarded(|| call(None, op, &mut d, &s_, Some(&bv), 7));
                kernel_probes.fetch_add(1, Relaxed);
            }
        }
        {
            let ss = rng.range(1, 70) as usize;
            let cnt = rng.range(1, 6) as usize;
            let mut slab = SymbolSlab::with_zeros(cnt, ss);
            let _ = guarded(|| slab.copy_block_from(cnt - 1, &rng.bytes(2 * ss)));
            let _ = guarded(|| slab.add_assign(0, cnt));
            let _ = guarded(|| slab.fma(cnt + 1, 0, &Octet::new(3)));
            let _ = guarded(|| slab.gather(&[0, cnt]).len());
            let _ = guarded(|| {
                slab.set_reorder((0..cnt).map(|x| x + 1).collect());
                slab.get_mut(cnt - 1)[0] = 1;
                slab.mulassign_scalar(cnt - 1, &Octet::new(9));
            });
            kernel_probes.fetch_add(5, Relaxed);
        }
        ctx.eval(1);
        ctx.nontrivial(0x4057_0000 + i as u64);
    });
    ctx.cov("hostile_cases", J::i(n));
    ctx.cov("hostile_decodes_refused_by_panic", J::i(refused.load(Relaxed)));
    ctx.cov("hostile_decodes_answered", J::i(answered.load(Relaxed)));
    ctx.cov("hostile_kernel_and_slab_probes", J::i(kernel_probes.load(Relaxed)));
}

pub fn run(ctx: &Ctx) -> i32 {
    let w = ctx.args.ex("workload").unwrap_or("guard").to_string();
    let mut rule = String::new();
    if let Some(p) = &ctx.args.replay {
        let j = parse_json(&std::fs::read_to_string(p).expect("replay file")).expect("json");
        let c = j.get("case").unwrap();
        match c.get("kind").and_then(|k| k.as_str()) {
            #[cfg(not(miri))]
            Some("guard") => {
                let only = (parse_isa(c.st("isa")), parse_op(c.st("op")), c.u("len") as usize, c.u("placement") as usize, c.u("scalar") as u8);
                guard::sweep(ctx, Some(only));
            }
            Some("slab") => slab(ctx),
            _ => {
                // kernel / codec / matrix cases replay through their own properties' replayers
                if c.get("isa").is_some() {
                    let gf = Gf::new();
                    let len = c.u("len") as usize;
                    let (mut da, mut sa) = (Arena::new(len.max(1)), Arena::new(len.max(1)));
                    monitored_call(ctx, "C12", &gf, &mut da, &mut sa, parse_isa(c.st("isa")), parse_op(c.st("op")), len, c.u("dest_offset") as usize, c.u("src_offset") as usize, c.u("scalar") as u8, c.u("content_kind"), c.u("data_seed"), &mut Default::default());
                } else if c.get("sequence_seed").is_some() {
                    super::c16::run_one(ctx, c.u("sequence_seed"), &Default::default());
                } else if c.get("idx").is_some() {
                    let (seed, idx, fam, mk, mt) = (c.u("seed"), c.u("idx"), c.u("family"), c.u("max_kt") as usize, c.u("max_t") as usize);
                    let case = super::c01::gen_case(seed, idx, fam, mk, mt);
                    super::c01::run_case(ctx, &case, super::c01::case_json(seed, idx, fam, mk, mt, &case), &Default::default());
                }
            }
        }
        ctx.eval(1);
        ctx.nontrivial(1);
        ctx.nontrivial(2);
        return ctx.finish("replay of one recorded case (run it under the same tool as the part that recorded it)", &[], vec![]);
    }
    for part in w.split(',') {
        match part {
            #[cfg(not(miri))]
            "guard" => {
                guard::sweep(ctx, None);
                rule += "guard: every kernel on every ISA + the public dispatchers, lengths 0..=320, each with both operands (and the packed bit vector) ending flush against a PROT_NONE page and starting flush after one, so any read or write of >= 1 byte outside the operands faults; the call is logged before it is made and a SIGSEGV handler reports it. ";
            }
            "kernels" => {
                kernels(ctx);
                rule += "kernels: value + 64-byte-canary sweep of every kernel of this build's ISA set over lengths 0..=maxlen x 8 alignment pairs (run under Miri / ASan / valgrind, which check every access). ";
            }
            "slab" => {
                slab(ctx);
                rule += "slab: add_assign/fma/mulassign_scalar on all ordered (dest,src) pairs of a 6-symbol slab for 10 symbol sizes, with and without a reorder mapping, whole slab compared with a model after every operation; get_pair_mut with equal or out-of-range indices must refuse. ";
            }
            "octet" => {
                // C10's pair enumeration (unchecked table look-ups)
                return super::c10::run(ctx);
            }
            "codec" => {
                codec(ctx);
                rule += "codec: whole encode/decode cases from the C01 generator (all decoder returns checked). ";
            }
            "hostile" => {
                hostile(ctx);
                rule += "hostile: block and object decoders fed encoder packets of which one or two carry a payload longer or shorter than the symbol size (last source symbol, last repair packet, first, random; batch or packet by packet), a block number out of range, the public kernels and the slab called with operands of unequal length / indices out of range: refusing by panic or answering are both accepted, the memory monitor must stay silent and an answer must have exactly the transfer length. ";
            }
            "matrix" => {
                matrix(ctx);
                rule += "matrix: dense/sparse operation sequences from the C16 walker. ";
            }
            other => panic!("unknown C12 workload {other}"),
        }
    }
    ctx.sample(|| J::obj(vec![("workload", J::s(w.clone())), ("monitor", J::s(ctx.args.ex("monitor").unwrap_or("native").to_string()))]));
    ctx.cov("memory_monitor", J::s(ctx.args.ex("monitor").unwrap_or("native guard pages / canaries").to_string()));
    ctx.finish(&(rule + "non-trivial = call with len >= 1 / distinct (size, pair) / case; distinct by the tuple named"), &["a clean run speaks only for the executed paths; NEON kernels cannot run on this host"], vec![])
}
