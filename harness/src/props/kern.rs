//! Kernel-level monitors shared by C11 (values) and C12 (memory): every private kernel on every
//! ISA the host supports (hook H2) and the public dispatchers, against an element-wise reference.
use crate::common::*;
use crate::refmodel::Gf;
use raptorq::verif::verif_kernels::{self as vk, Isa};
use raptorq::verif::{BinaryOctetVec, Octet};

#[derive(Clone, Copy, Debug, PartialEq, Eq, Hash)]
pub enum Op {
    Add,
    Mul,
    Fma,
    FmaBin,
}
pub const OPS: [Op; 4] = [Op::Add, Op::Mul, Op::Fma, Op::FmaBin];
pub const ISAS: [Isa; 4] = [Isa::Avx512, Isa::Avx2, Isa::Ssse3, Isa::Portable];

pub fn isa_name(i: Option<Isa>) -> &'static str {
    match i {
        None => "public-dispatcher",
        Some(Isa::Avx512) => "avx512",
        Some(Isa::Avx2) => "avx2",
        Some(Isa::Ssse3) => "ssse3",
        Some(Isa::Portable) => "portable",
    }
}
pub fn op_name(o: Op) -> &'static str {
    match o {
        Op::Add => "add_assign",
        Op::Mul => "mulassign_scalar",
        Op::Fma => "fused_addassign_mul_scalar",
        Op::FmaBin => "fused_addassign_mul_scalar_binary",
    }
}

/// documented layout of a packed binary vector: values right-aligned, the last value is the top
/// bit of the last word, padding = low bits of word 0
pub fn pack_bits(bits: &[u8]) -> Vec<u64> {
    let n = bits.len();
    let words = n.div_ceil(64);
    let pad = (64 - n % 64) % 64;
    let mut v = vec![0u64; words];
    for (i, &b) in bits.iter().enumerate() {
        if b != 0 {
            let pos = pad + i;
            v[pos / 64] |= 1u64 << (pos % 64);
        }
    }
    v
}

/// does this (isa, op) have a kernel of its own? (binary FMA exists only for AVX-512 and AVX2;
/// the dispatcher unpacks on the others)
pub fn has_kernel(isa: Option<Isa>, op: Op) -> bool {
    !(op == Op::FmaBin && matches!(isa, Some(Isa::Ssse3) | Some(Isa::Portable)))
}

/// scalar precondition of the entry point (public dispatchers debug_assert these)
pub fn scalar_ok(isa: Option<Isa>, op: Op, c: u8) -> bool {
    match (isa, op) {
        (None, Op::Fma) => c >= 2,
        (None, Op::FmaBin) => c >= 1,
        _ => true,
    }
}

/// invoke one kernel. `bits` is only read for FmaBin.
pub fn call(isa: Option<Isa>, op: Op, dest: &mut [u8], src: &[u8], bits: Option<&BinaryOctetVec>, c: u8) {
    let sc = Octet::new(c);
    match (isa, op) {
        (None, Op::Add) => raptorq::verif::add_assign(dest, src),
        (None, Op::Mul) => raptorq::verif::mulassign_scalar(dest, &sc),
        (None, Op::Fma) => raptorq::verif::fused_addassign_mul_scalar(dest, src, &sc),
        (None, Op::FmaBin) => raptorq::verif::fused_addassign_mul_scalar_binary(dest, bits.unwrap(), &sc),
        (Some(i), Op::Add) => vk::add_assign(i, dest, src),
        (Some(i), Op::Mul) => vk::mulassign_scalar(i, dest, &sc),
        (Some(i), Op::Fma) => vk::fused_addassign_mul_scalar(i, dest, src, &sc),
        (Some(i), Op::FmaBin) => {
            let ran = vk::fused_addassign_mul_scalar_binary(i, dest, bits.unwrap(), &sc);
            assert!(ran, "harness: binary kernel requested on an ISA without one");
        }
    }
}

pub fn reference(gf: &Gf, op: Op, dest0: &[u8], src: &[u8], bits: &[u8], c: u8, out: &mut Vec<u8>) {
    out.clear();
    out.extend_from_slice(dest0);
    for k in 0..dest0.len() {
        out[k] = match op {
            Op::Add => dest0[k] ^ src[k],
            Op::Mul => gf.m(c, dest0[k]),
            Op::Fma => dest0[k] ^ gf.m(c, src[k]),
            Op::FmaBin => dest0[k] ^ if bits[k] != 0 { c } else { 0 },
        };
    }
}

pub fn fill_content(rng: &mut Rng, kind: u64, buf: &mut [u8]) {
    match kind % 6 {
        0 | 1 => rng.fill(buf),
        2 => buf.fill(0),
        3 => buf.fill(0xFF),
        4 => {
            buf.fill(0);
            if !buf.is_empty() {
                let i = rng.below(buf.len() as u64) as usize;
                buf[i] = 1 << rng.below(8);
            }
        }
        _ => {
            for (i, b) in buf.iter_mut().enumerate() {
                *b = if i % 2 == 0 { 0x0F } else { 0xF0 };
            }
        }
    }
}

pub fn content_name(kind: u64) -> &'static str {
    ["random", "random", "0x00", "0xFF", "one-hot", "0x0F/0xF0"][(kind % 6) as usize]
}

pub fn supported_isas() -> Vec<Option<Isa>> {
    let mut v: Vec<Option<Isa>> = ISAS.iter().copied().filter(|&i| vk::supported(i)).map(Some).collect();
    v.push(None);
    v
}

pub fn case_json(isa: Option<Isa>, op: Op, len: usize, doff: usize, soff: usize, c: u8, content: u64, seed: u64) -> J {
    J::obj(vec![
        ("isa", J::s(isa_name(isa))),
        ("op", J::s(op_name(op))),
        ("len", J::i(len)),
        ("dest_offset", J::i(doff)),
        ("src_offset", J::i(soff)),
        ("scalar", J::i(c)),
        ("content", J::s(content_name(content))),
        ("content_kind", J::i(content)),
        ("data_seed", J::i(seed)),
    ])
}

pub fn parse_isa(s: &str) -> Option<Isa> {
    match s {
        "avx512" => Some(Isa::Avx512),
        "avx2" => Some(Isa::Avx2),
        "ssse3" => Some(Isa::Ssse3),
        "portable" => Some(Isa::Portable),
        _ => None,
    }
}
pub fn parse_op(s: &str) -> Op {
    match s {
        "add_assign" => Op::Add,
        "mulassign_scalar" => Op::Mul,
        "fused_addassign_mul_scalar" => Op::Fma,
        _ => Op::FmaBin,
    }
}

/// 64-byte aligned scratch arena on the heap with canaries around the operand
pub struct Arena {
    raw: Vec<u8>,
    base: usize,
}
pub const CANARY: usize = 64;
impl Arena {
    pub fn new(max_len: usize) -> Arena {
        let raw = vec![0u8; max_len + 64 + 2 * CANARY + 64];
        let base = (64 - (raw.as_ptr() as usize) % 64) % 64;
        Arena { raw, base }
    }
    /// operand of `len` bytes whose first byte sits at alignment `off` (mod 64); canaries of 64
    /// bytes before and after are filled with `pat`
    pub fn place(&mut self, off: usize, len: usize, pat: u8) -> std::ops::Range<usize> {
        let start = self.base + CANARY + off;
        self.raw[start - CANARY..start].fill(pat);
        self.raw[start + len..start + len + CANARY].fill(pat);
        debug_assert_eq!((self.raw.as_ptr() as usize + start) % 64, off % 64);
        start..start + len
    }
    pub fn slice(&mut self, r: std::ops::Range<usize>) -> &mut [u8] {
        &mut self.raw[r]
    }
    pub fn canaries_intact(&self, r: &std::ops::Range<usize>, pat: u8) -> bool {
        self.raw[r.start - CANARY..r.start].iter().all(|&b| b == pat) && self.raw[r.end..r.end + CANARY].iter().all(|&b| b == pat)
    }
}

/// One monitored kernel call on heap arenas with canaries; returns false and records a violation
/// if the result differs from the element-wise reference, the source changed, or a canary changed.
pub fn monitored_call(
    ctx: &Ctx,
    prop: &str,
    gf: &Gf,
    da: &mut Arena,
    sa: &mut Arena,
    isa: Option<Isa>,
    op: Op,
    len: usize,
    doff: usize,
    soff: usize,
    c: u8,
    content: u64,
    seed: u64,
    scratch: &mut (Vec<u8>, Vec<u8>, Vec<u8>, Vec<u8>),
) -> bool {
    let mut rng = Rng::new(seed);
    let (d0, s0, bits, want) = scratch;
    d0.resize(len, 0);
    s0.resize(len, 0);
    bits.resize(len, 0);
    fill_content(&mut rng, content, d0);
    fill_content(&mut rng, content / 6 + content, s0);
    // packed-bit operand: all zero / all one / sparse (about one bit per 64-bit word, so that neighbouring
    // words rarely share a bit position) / complementary neighbouring words (word w holds the bit positions
    // of parity w: every pair of adjacent words is non-zero and has no common set bit) / dense random
    let pad = (64 - len % 64) % 64;
    for (k, b) in bits.iter_mut().enumerate() {
        *b = match content % 6 {
            2 => 0,
            3 => 1,
            4 => (rng.below(48) == 0) as u8,
            5 => (((k + pad) % 64) % 2 == ((k + pad) / 64) % 2) as u8,
            // (kind 0 doubles as "last whole word zero", kind 1 stays dense random)
            0 if seed % 2 == 0 => ((k + pad) / 64 + 1 != (len + pad) / 64) as u8 & (rng.next() & 1) as u8,
            _ => (rng.next() & 1) as u8,
        };
    }
    reference(gf, op, d0, s0, bits, c, want);
    let dr = da.place(doff, len, 0xC3);
    let sr = sa.place(soff, len, 0x3C);
    da.slice(dr.clone()).copy_from_slice(d0);
    sa.slice(sr.clone()).copy_from_slice(s0);
    let bv = if op == Op::FmaBin { Some(BinaryOctetVec::new(pack_bits(bits), len)) } else { None };
    crashlog::note(crashlog::KERNEL, &[match isa { None => 0, Some(Isa::Avx512) => 1, Some(Isa::Avx2) => 2, Some(Isa::Ssse3) => 3, Some(Isa::Portable) => 4 }, OPS.iter().position(|&o| o == op).unwrap() as u64, len as u64, doff as u64, soff as u64, c as u64, content, seed]);
    let r = {
        let s: &[u8] = &sa.raw[sr.clone()];
        let d: &mut [u8] = &mut da.raw[dr.clone()];
        guarded(|| call(isa, op, d, s, bv.as_ref(), c))
    };
    crashlog::clear();
    let sig = || format!("{prop} kernel {}/{} len={len} dest_off={doff} src_off={soff} scalar={c} content={}", isa_name(isa), op_name(op), content_name(content));
    let mut ok = true;
    if let Err(m) = r {
        ctx.violation(sig(), format!("kernel {}/{} panicked on an in-precondition call (len={len}, scalar={c}): {}", isa_name(isa), op_name(op), short(&m, 100)), case_json(isa, op, len, doff, soff, c, content, seed));
        return false;
    }
    let got = &da.raw[dr.clone()];
    if let Some(k) = got.iter().zip(want.iter()).position(|(a, b)| a != b) {
        ctx.violation(
            sig(),
            format!("kernel {}/{} len={len} dest alignment {doff} src alignment {soff} scalar={c:#04x} content={}: byte {k} is {:#04x}, element-wise GF(256) result is {:#04x} (dest was {:#04x}, src {:#04x}, bit {})", isa_name(isa), op_name(op), content_name(content), got[k], want[k], d0[k], s0[k], bits[k]),
            case_json(isa, op, len, doff, soff, c, content, seed),
        );
        ok = false;
    }
    if sa.raw[sr.clone()] != s0[..] {
        ctx.violation(sig() + " src-modified", format!("kernel {}/{} len={len}: the source operand was modified", isa_name(isa), op_name(op)), case_json(isa, op, len, doff, soff, c, content, seed));
        ok = false;
    }
    if !da.canaries_intact(&dr, 0xC3) || !sa.canaries_intact(&sr, 0x3C) {
        ctx.violation(sig() + " canary", format!("kernel {}/{} len={len} dest alignment {doff}: bytes outside the operand were written (64-byte canary changed)", isa_name(isa), op_name(op)), case_json(isa, op, len, doff, soff, c, content, seed));
        ok = false;
    }
    ok
}
