//! C13 — wire formats are the RFC 6330 layouts and round-trip losslessly.
#![allow(non_snake_case)]
use crate::common::*;
use raptorq::{EncodingPacket, ObjectTransmissionInformation as Oti, PayloadId};
use std::sync::atomic::{AtomicU64, Ordering::Relaxed};

/// one 4-byte buffer: deserialize -> fields per RFC 3.2; re-serialize reproduces the buffer;
/// PayloadId::new(fields).serialize() is the same buffer; equality of the two values.
fn check_pid_buf(ctx: &Ctx, buf: [u8; 4]) -> bool {
    let sbn = buf[0];
    let esi = ((buf[1] as u32) << 16) | ((buf[2] as u32) << 8) | buf[3] as u32;
    let r = guarded(|| {
        let p = PayloadId::deserialize(&buf);
        let q = PayloadId::new(sbn, esi);
        (p.source_block_number(), p.encoding_symbol_id(), p.serialize(), q.serialize(), p == q)
    });
    let ok = matches!(&r, Ok((s, e, ser, ser2, eq)) if *s == sbn && *e == esi && *ser == buf && *ser2 == buf && *eq);
    if !ok {
        ctx.violation(
            format!("C13 payload-id buf={:02x}{:02x}{:02x}{:02x}", buf[0], buf[1], buf[2], buf[3]),
            format!("PayloadId wire format: buffer {:?} expected (SBN={sbn}, ESI={esi}) and identity round trip, got {:?}", buf, r),
            J::obj(vec![("kind", J::s("pid")), ("buf", J::hex(&buf))]),
        );
    }
    ok
}

fn check_packet(ctx: &Ctx, sbn: u8, esi: u32, payload: &[u8]) -> bool {
    let mut want = vec![sbn, (esi >> 16) as u8, (esi >> 8) as u8, esi as u8];
    want.extend_from_slice(payload);
    let r = guarded(|| {
        let p = EncodingPacket::new(PayloadId::new(sbn, esi), payload.to_vec());
        let ser = p.serialize();
        let back = EncodingPacket::deserialize(&want);
        let id_ok = back.payload_id().source_block_number() == sbn && back.payload_id().encoding_symbol_id() == esi;
        (ser, back == p, id_ok && back.data() == payload, back.serialize())
    });
    let ok = matches!(&r, Ok((ser, eq, fields, reser)) if *ser == want && *eq && *fields && *reser == want);
    if !ok {
        ctx.violation(
            format!("C13 packet sbn={sbn} esi={esi} len={}", payload.len()),
            format!("EncodingPacket wire format (payload id || symbol) or round trip broken for SBN={sbn} ESI={esi} payload length {}", payload.len()),
            J::obj(vec![("kind", J::s("packet")), ("sbn", J::i(sbn)), ("esi", J::i(esi)), ("payload", J::hex(payload))]),
        );
    }
    ok
}

/// one 12-byte OTI buffer (any content): parsed fields = RFC 3.3.2/3.3.3 layout; re-serialising
/// reproduces the buffer with the reserved byte cleared; deserialize(serialize(x)) == x.
fn check_oti_buf(ctx: &Ctx, buf: [u8; 12]) -> bool {
    let F = ((buf[0] as u64) << 32) | ((buf[1] as u64) << 24) | ((buf[2] as u64) << 16) | ((buf[3] as u64) << 8) | buf[4] as u64;
    let T = ((buf[6] as u16) << 8) | buf[7] as u16;
    let Z = buf[8];
    let N = ((buf[9] as u16) << 8) | buf[10] as u16;
    let Al = buf[11];
    let mut cleared = buf;
    cleared[5] = 0;
    let r = guarded(|| {
        let o = Oti::deserialize(&buf);
        let ser = o.serialize();
        let back = Oti::deserialize(&ser);
        ((o.transfer_length(), o.symbol_size(), o.source_blocks(), o.sub_blocks(), o.symbol_alignment()), ser, back == o)
    });
    let ok = matches!(&r, Ok((f, ser, eq)) if *f == (F, T, Z, N, Al) && *ser == cleared && *eq);
    if !ok {
        ctx.violation(
            format!("C13 oti buf={}", J::hex(&buf).as_str().unwrap()),
            format!("OTI wire format: buffer {:02x?} expected fields (F={F},T={T},Z={Z},N={N},Al={Al}) and re-serialisation with reserved byte cleared; got {:?}", buf, r),
            J::obj(vec![("kind", J::s("oti")), ("buf", J::hex(&buf))]),
        );
    }
    ok
}

/// values built through the constructor (where its limits admit them) must serialise to the
/// layout as well
fn check_oti_new(ctx: &Ctx, F: u64, T: u16, Z: u8, N: u16, Al: u8) -> bool {
    let want = [
        (F >> 32) as u8, (F >> 24) as u8, (F >> 16) as u8, (F >> 8) as u8, F as u8, 0, (T >> 8) as u8, T as u8, Z, (N >> 8) as u8, N as u8, Al,
    ];
    let r = guarded(|| {
        let o = Oti::new(F, T, Z, N, Al);
        let back = Oti::deserialize(&o.serialize());
        // "an equal value": by ==, by the total order and by the hash the type derives
        let hash = |x: &Oti| {
            use std::hash::{Hash, Hasher};
            let mut h = std::collections::hash_map::DefaultHasher::new();
            x.hash(&mut h);
            h.finish()
        };
        (o.serialize(), back == o && back.cmp(&o) == std::cmp::Ordering::Equal && hash(&back) == hash(&o))
    });
    match r {
        Err(_) => true, // refused by the constructor: not a representable constructed value (C19's business)
        Ok((ser, eq)) => {
            let ok = ser == want && eq;
            if !ok {
                ctx.violation(
                    format!("C13 oti new(F={F},T={T},Z={Z},N={N},Al={Al})"),
                    format!("OTI built by new(F={F},T={T},Z={Z},N={N},Al={Al}) serialises to {:02x?}, RFC layout is {:02x?} (round trip equal: {eq})", ser, want),
                    J::obj(vec![("kind", J::s("oti_new")), ("F", J::i(F)), ("T", J::i(T)), ("Z", J::i(Z)), ("N", J::i(N)), ("Al", J::i(Al))]),
                );
            }
            ok
        }
    }
}

fn edge_vals(bits: u32) -> Vec<u64> {
    let max = if bits == 64 { u64::MAX } else { (1u64 << bits) - 1 };
    let mut v = vec![0, 1, 2, max - 1, max];
    for b in 0..bits {
        v.push(1u64 << b);
        v.push(max ^ (1u64 << b));
    }
    v.sort_unstable();
    v.dedup();
    v
}

pub fn run(ctx: &Ctx) -> i32 {
    if let Some(p) = &ctx.args.replay {
        let j = parse_json(&std::fs::read_to_string(p).expect("replay file")).expect("json");
        let c = j.get("case").unwrap();
        ctx.eval(1);
        match c.st("kind") {
            "pid" => {
                let b = unhex(c.st("buf"));
                check_pid_buf(ctx, [b[0], b[1], b[2], b[3]]);
            }
            "packet" => {
                check_packet(ctx, c.u("sbn") as u8, c.u("esi") as u32, &unhex(c.st("payload")));
            }
            "oti" => {
                let b = unhex(c.st("buf"));
                let mut a = [0u8; 12];
                a.copy_from_slice(&b);
                check_oti_buf(ctx, a);
            }
            _ => {
                check_oti_new(ctx, c.u("F"), c.u("T") as u16, c.u("Z") as u8, c.u("N") as u16, c.u("Al") as u8);
            }
        }
        ctx.nontrivial(1);
        ctx.nontrivial(2);
        return ctx.finish("replay of one recorded value", &[], vec![]);
    }
    let quick = ctx.args.quick();
    // ---- PayloadId: thorough = all 2^32 buffers; quick = all 2^24 ESIs x 3 SBNs + random buffers
    let pid_checked = AtomicU64::new(0);
    if quick {
        let sbns = [0u8, 0xA5, 255];
        par_for(3 * 256, |i| {
            let sbn = sbns[i / 256];
            let hi = (i % 256) as u8;
            for mid in 0..=255u8 {
                for lo in 0..=255u8 {
                    check_pid_buf(ctx, [sbn, hi, mid, lo]);
                }
            }
            pid_checked.fetch_add(65536, Relaxed);
        });
        par_for(64, |i| {
            let mut rng = Rng::derive(ctx.seed(), 13, i as u64);
            for _ in 0..50_000 {
                let b = (rng.next() as u32).to_be_bytes();
                check_pid_buf(ctx, b);
            }
            pid_checked.fetch_add(50_000, Relaxed);
        });
    } else {
        par_for(65536, |i| {
            let (b0, b1) = ((i >> 8) as u8, i as u8);
            for mid in 0..=255u8 {
                for lo in 0..=255u8 {
                    check_pid_buf(ctx, [b0, b1, mid, lo]);
                }
            }
            pid_checked.fetch_add(65536, Relaxed);
        });
    }
    let n_pid = pid_checked.load(Relaxed);
    ctx.eval(n_pid as usize);
    ctx.cov("payload_id_buffers_checked", J::i(n_pid));
    ctx.cov("payload_id_exhaustive_2^32", J::B(!quick));
    // PayloadId::new must refuse ESIs beyond 24 bits (they are not representable on the wire)
    for esi in [1u32 << 24, (1 << 24) + 1, u32::MAX] {
        ctx.eval(1);
        if guarded(|| PayloadId::new(0, esi)).is_ok() {
            ctx.violation(format!("C13 payload-id new esi={esi}"), format!("PayloadId::new accepted ESI {esi} which does not fit the 24-bit wire field"), J::obj(vec![("kind", J::s("pid_new")), ("esi", J::i(esi))]));
        }
    }
    // ---- EncodingPacket: all payload lengths 0..=2048, plus 65535, several ids
    let pk = AtomicU64::new(0);
    let lens: Vec<usize> = (0..=2048usize).chain([4095, 4096, 65535]).collect();
    par_for(lens.len(), |i| {
        let len = lens[i];
        let mut rng = Rng::derive(ctx.seed(), 1313, len as u64);
        for rep in 0..ctx.args.pick(3, 12) {
            let payload = match rep % 3 {
                0 => rng.bytes(len),
                1 => vec![0xFF; len],
                _ => vec![0; len],
            };
            let sbn = rng.next() as u8;
            let esi = match rep % 4 {
                0 => 0,
                1 => (1 << 24) - 1,
                _ => rng.below(1 << 24) as u32,
            };
            check_packet(ctx, sbn, esi, &payload);
            pk.fetch_add(1, Relaxed);
            let mut h = H64::new();
            h.u64(2).u64(len as u64).u64(sbn as u64).u64(esi as u64);
            ctx.nontrivial(h.get());
        }
    });
    ctx.eval(pk.load(Relaxed) as usize);
    ctx.cov("packets_checked", J::i(pk.load(Relaxed)));
    ctx.cov("packet_payload_lengths", J::s("every length 0..=2048, 4095, 4096, 65535"));
    // ---- OTI: full cross product of edge values per field + random buffers
    let fs = edge_vals(40);
    let ts = edge_vals(16);
    let zs = edge_vals(8);
    let ns = if quick { vec![0u64, 1, 255, 256, 0x8000, 0xFFFE, 0xFFFF] } else { edge_vals(16) };
    let als = if quick { vec![0u64, 1, 2, 8, 128, 254, 255] } else { edge_vals(8) };
    let oti_n = AtomicU64::new(0);
    let oti_new_ok = AtomicU64::new(0);
    par_for(fs.len(), |fi| {
        let F = fs[fi];
        let mut n = 0;
        let mut local = vec![];
        for &T in &ts {
            for &Z in &zs {
                for &N in &ns {
                    for &Al in &als {
                        for reserved in [0u8, 0x5A] {
                            let buf = [
                                (F >> 32) as u8, (F >> 24) as u8, (F >> 16) as u8, (F >> 8) as u8, F as u8, reserved, (T >> 8) as u8, T as u8, Z as u8, (N >> 8) as u8, N as u8, Al as u8,
                            ];
                            check_oti_buf(ctx, buf);
                            n += 1;
                        }
                        // (whatever the constructor accepts, including a zero block count or symbol size)
                        if Al > 0 && check_oti_new(ctx, F, T as u16, Z as u8, N as u16, Al as u8) {
                            n += 1;
                        }
                        let mut h = H64::new();
                        h.u64(3).u64(F).u64(T).u64(Z).u64(N).u64(Al);
                        local.push(h.get());
                    }
                }
            }
        }
        oti_n.fetch_add(n, Relaxed);
        ctx.nontrivial_many(local);
    });
    let nrand = ctx.args.pick(2_000_000usize, 20_000_000);
    par_for(64, |i| {
        let mut rng = Rng::derive(ctx.seed(), 131313, i as u64);
        for _ in 0..nrand / 64 {
            let mut buf = [0u8; 12];
            rng.fill(&mut buf);
            check_oti_buf(ctx, buf);
            if i == 0 {
                ctx.sample(|| J::obj(vec![("oti_buffer", J::hex(&buf))]));
            }
            // also through the constructor where it admits the value
            let F = u64::from_be_bytes([0, 0, 0, buf[0] & 0x0F, buf[1], buf[2], buf[3], buf[4]]);
            let T = u16::from_be_bytes([buf[6], buf[7]]);
            if buf[11] > 0 && T % buf[11] as u16 == 0 {
                if check_oti_new(ctx, F, T, buf[8], u16::from_be_bytes([buf[9], buf[10]]), buf[11]) {
                    oti_new_ok.fetch_add(1, Relaxed);
                }
            }
        }
        oti_n.fetch_add(nrand as u64 / 64, Relaxed);
    });
    ctx.eval(oti_n.load(Relaxed) as usize);
    ctx.cov("oti_buffers_checked", J::i(oti_n.load(Relaxed)));
    ctx.cov("oti_values_built_through_new", J::i(oti_new_ok.load(Relaxed)));
    ctx.sample(|| J::obj(vec![("payload_id_buffer", J::s("a5fffffe")), ("expect", J::s("SBN=165 ESI=16777214"))]));
    ctx.floor("payload_id_buffers_checked_floor", n_pid, 1 << 24);
    ctx.finish(
        "PayloadId: every 4-byte buffer of the enumerated range (thorough: all 2^32; quick: all 2^24 ESIs x 3 SBNs + random buffers) checked for field extraction per RFC 3.2, identity re-serialisation and new()==deserialize(); EncodingPacket: every payload length 0..=2048 (+4095,4096,65535); OTI: cross product of per-field edge values (0,1,2,max-1,max, every single bit set/cleared) x reserved byte {0,0x5a} + random 12-byte buffers, fields per RFC 3.3.2/3.3.3, re-serialisation with reserved byte cleared, and through new() where admitted. distinct_nontrivial counts distinct packet (len,id) and OTI field tuples of the cross product (PayloadId buffers are counted in payload_id_buffers_checked)",
        &["byte layouts written from RFC 6330 3.2 / 3.3.2 / 3.3.3 in the harness"],
        vec![],
    )
}
