#!/usr/bin/env python3
"""Writes /verif/MANIFEST.json from the table below (single source of truth for the check list)."""
import json, os, subprocess

ROOT = os.path.dirname(os.path.abspath(__file__))

TRUST = "Oracles are written in the harness from RFC 6330 / the property statement; the RFC data tables (V0..V3, Table 2, degree thresholds) are a golden copy frozen in /verif (harness/src/golden.rs). The verdict speaks only for the executions produced (counts in the evidence file)."

CHECKS = {
 "C01": ("decoder-return monitor vs original bytes",
         "Runtime monitor over generated delivery histories: after every decoder call the return value must be None or exactly the object; Some is required once all source packets arrived. Exploration of configurations x data x histories x thresholds x both APIs, incl. big blocks; sampled, not exhaustive.",
         "3.C01"),
 "C02": ("decoder Some/None vs independent GF(256) rank oracle at every prefix",
         "Online comparison of the decoder's answer after every packet with the rank over GF(256) of the RFC constraint matrix computed by an independent reference model; workloads aimed at the decision boundary and at the GF(2)-only fast path with forced fall-back. Sampled over K and received sets.",
         "3.C02"),
 "C03": ("failure-frequency monitor with exact binomial bounds",
         "Statistical monitor: counts None at exactly K+h symbols over random subsets and decides with one-sided Clopper-Pearson bounds at 1-1e-9; every failure is cross-checked by the rank oracle. A distributional claim is supported with stated confidence, never certainty.",
         "3.C03"),
 "C04": ("packet payloads vs reference RFC encoder (certified intermediate symbols + independent solve)",
         "Byte-for-byte comparison of real encoder output with an independent executable model of RFC 6330: intermediate symbols read through a hook are certified against all LDPC/HDPC/LT relations, repair symbols compared with reference Enc/Tuple; for K'<=600 the reference solves the system itself (no hook).",
         "3.C04"),
 "C05": ("packet list vs RFC 4.4.1.2 layout oracle",
         "Comparison of get_encoded_packets(0), calculate_block_offsets and decoder output with the layout computed from the RFC text in wide integers, over stratified valid configurations (many blocks, many sub-blocks, padding).",
         "3.C05"),
 "C06": ("constraint checker on hooked intermediate symbols, all 477 K' x construction routes",
         "All 477 extended block sizes are built (default route exhaustively; plan replay / unplanned sparse / dense routes on all or a stratified subset) and their intermediate symbols checked against every pre-code and LT relation of the reference model; routes must agree with each other.",
         "3.C06"),
 "C07": ("offline equality of event logs across builds / ISAs / thresholds / plan routes",
         "The same seeded case script is executed by every configuration (release, debug-assertions+overflow-checks, no_std; AVX-512/AVX2/SSSE3/portable kernels via an ISA cap hook; sparse threshold 0/250/inf; cached/explicit/unplanned plans); each logs a digest per operation and the logs must be line-for-line equal.",
         "3.C07"),
 "C08": ("trace checker over call/return logs of delivery histories",
         "For every packet set several histories (permutations, duplicates, interleavings, continuation after completion) are run through three observers (decode, add_new_packet+get_result, a clone) and checked after every call for set-determinism (against the rank oracle), stability, interface agreement and batching equivalence.",
         "3.C08"),
 "C09": ("metamorphic relations on real encoder/decoder output",
         "Linearity, scaling and byte-column relations evaluated on packets of related inputs for every symbol size 1..200 and larger sizes, several K, both plan routes and multi-block objects.",
         "3.C09"),
 "C10": ("exhaustive enumeration against the field built from the polynomial",
         "Finite domain enumerated completely on every run: all 65 536 operand pairs for every operator and table, all 256^3 triples for the field laws, all exponents; run in the release build and again with debug assertions and overflow checks on; also run under Miri by the C12 check.",
         "3.C10"),
 "C11": ("kernel output vs element-wise reference, every ISA, with canaries",
         "Every private SIMD/portable kernel (exposed by a hook) and the public dispatchers are called for every length 0..320, 64x8 alignment pairs and all scalars; results compared byte-for-byte with the element-wise reference, source and canaries must be untouched.",
         "3.C11"),
 "C12": ("Miri + AddressSanitizer + guard pages + std unsafe-precondition checks + valgrind on kernel, slab, matrix, codec and hostile workloads",
         "Memory monitors on executed paths: guard-page placement of kernel operands (native, all ISAs), Miri on four target-feature builds (kernels, slab pairs incl. aliasing model, octet tables, small codec runs), ASan build of the kernel sweep, codec generator and hostile inputs (malformed payloads, unequal operands), the same workloads in a debug-assertion build under the standard library's unsafe-precondition checks, crash attribution (SIGSEGV inside a library call = violation), valgrind memcheck (thorough).",
         "3.C12"),
 "C13": ("serialised bytes vs RFC layouts; PayloadId exhaustive in thorough",
         "Wire formats compared with byte layouts written from RFC 3.2/3.3; PayloadId over all 2^32 buffers (thorough) or all 2^24 ESIs x 3 SBNs (quick); packets for all payload lengths 0..2048; OTI over the cross product of per-field edge values and random buffers.",
         "3.C13"),
 "C14": ("derived parameters vs RFC 4.3 in u128; monotonicity; round trip",
         "Derivation compared with an independent RFC 4.3 computation over stratified (F, packet size, memory budget) inputs incl. the narrowing-cast and small-budget regions, monotonicity in the budget, and builder->decoder round trips on real data.",
         "3.C14"),
 "C15": ("parameters for all K and tuples (thorough: all 8e9 pairs) vs reference, release + checked builds",
         "All K in 0..=56403 enumerated; tuples compared with the reference in u64 arithmetic (quick: edges, random and algebraically derived overflow-sensitive ISIs per K'; thorough: every (K',X)); run in release and in a debug-assertions+overflow-checks build so arithmetic overflow becomes an observable panic.",
         "3.C15"),
 "C16": ("model-based walker: dense + sparse vs bit-array model under admissible op sequences",
         "Generated admissible operation sequences (construction, indexed solver-like phase, un-indexed phase) applied to both implementations and a {0,1,undefined} bit-array model; every query answer compared; run in release and in the checked build where the crate's own debug assertions act as extra monitors.",
         "3.C16"),
 "C17": ("controlled-schedule enumeration + stress with cache-invariant snapshots (TSan/Miri in thorough)",
         "A turnstile at a yield hook between the two critical sections enumerates every order of lookup/insert sections for 2 and 3 concurrent requests across cache states; after every section a snapshot (taken under the cache's own lock) must satisfy the invariant (|map| = |order| <= capacity, same keys, right plan under every key; deviations from a sequential FIFO model are recorded as observations only); all returned encoders compared with uncached ones; plus 16-thread stress with injected delays, hot-cache histories and an eviction of a plan that is in use.",
         "3.C17"),
 "C18": ("window/overlap/plan-interchange relations on real output",
         "Relations between repair windows and single requests (exhaustive small windows, random windows up to the last ESI), equality of encoders from different plan instances, and ordering/distinctness of the per-object packet list.",
         "3.C18"),
 "C19": ("constructor returns-or-panics vs documented limits in u128",
         "ObjectTransmissionInformation::new is called under catch_unwind on boundary- and narrowing-directed tuples and must return iff the documented limits hold; accepted configurations must echo their arguments.",
         "3.C19"),
}

BUILT = sorted(CHECKS)
NOT_YET = {"C07": "monitor under construction in this commit (cross-configuration log comparison); will be claimed once built", "C12": "monitor under construction in this commit (Miri/ASan/guard-page parts); will be claimed once built"}

def main():
    hooks_commit = "7fb8e72"
    m = {
        "version": 1,
        "setup_cmd": "./setup.sh",
        "hooks": {
            "guard": "cargo feature `verif` (off by default)",
            "enable": "harness/Cargo.toml depends on raptorq = { path = \"/repo\", features = [\"verif\", ...] }; every check runs `cargo build` first, so /repo's current working tree is rebuilt with the hooks on",
            "baseline_off_cmd": "cd /repo && cargo test --workspace --no-fail-fast --offline",
            "source_commits": [hooks_commit],
            "add_only": True,
        },
        "engines": [
            {"name": "rqv", "path": "harness/", "serves_properties": sorted(CHECKS), "kind_free_text": "Rust harness: workload generators + runtime monitors (oracles from an independent RFC 6330 reference model), one sub-command per property; orchestrated by ./check which also drives the sanitizer builds (Miri, ASan, TSan, valgrind)"},
        ],
        "checks": [],
        "not_applicable": [],
        "notes": "Technique family: runtime monitoring and sanitizers. Exit codes of ./check: 0 held on everything explored, 1 violated (VIOLATION lines), 2 inconclusive (never folded into the other two). Known findings: KNOWN_FINDINGS.txt (only `fixed:` entries; five genuine defects were repaired by `fix:` commits in /repo). Seeded changes used to validate the monitors: seeded/ (see DESIGN.md section 7).",
    }
    for pid in sorted(CHECKS):
        tech, text, ref = CHECKS[pid]
        if pid not in BUILT:
            m["not_applicable"].append({"property_id": pid, "reason": NOT_YET[pid]})
            continue
        m["checks"].append({
            "property_id": pid,
            "quick_cmd": "./check %s quick" % pid,
            "thorough_cmd": "./check %s thorough" % pid,
            "evidence_file": "/verif/evidence/%s.json" % pid,
            "replay_cmd_template": "./check %s --replay {path}" % pid,
            "engine": "rqv",
            "level_claimed": {"category": "exploration", "text": text, "design_ref": "DESIGN.md section " + ref},
            "level_note": TRUST,
            "technique": "runtime monitoring: " + tech,
        })
    json.dump(m, open(os.path.join(ROOT, "MANIFEST.json"), "w"), indent=1)
    print("wrote MANIFEST.json with %d checks, %d not_applicable" % (len(m["checks"]), len(m["not_applicable"])))

if __name__ == "__main__":
    main()
