#!/usr/bin/env python3
"""Seeded-change tooling.

  seedtool.py verify <worktree> <PROP>      confirm each SEED/<x> of a sub-agent worktree (suite passes with
                                            the change, demo fails with it and passes without) and keep the
                                            confirmed ones as /verif/seeded/<PROP>-<x>/
  seedtool.py run <seed-id> [<check-id>...] apply seeded/<seed-id>/patch.diff to /repo, run the quick checks
                                            (default: the property it breaks), undo, record result in
                                            seeded/RESULTS.json
  seedtool.py runall [quick|thorough]       run every seed against its own property's check
"""
import json, os, subprocess, sys, shutil, time

ROOT = os.path.dirname(os.path.abspath(__file__))
SEEDED = os.path.join(ROOT, "seeded")
ENV = dict(os.environ, CARGO_NET_OFFLINE="true")
# checks run against a seeded change write their evidence here (git-ignored), never over evidence/<id>.json
SEED_EVID = os.path.join(ROOT, "evidence", "tmp", "seedrun")

def sh(cmd, cwd=None, timeout=3600):
    p = subprocess.run(cmd, cwd=cwd, env=ENV, shell=isinstance(cmd, str), stdout=subprocess.PIPE, stderr=subprocess.STDOUT, text=True, errors="replace", timeout=timeout)
    return p.returncode, p.stdout

def suite_ok(wt):
    rc, out = sh("cargo test --offline -j 8 -- --test-threads 8 2>&1 | grep 'test result' | head -1", cwd=wt)
    return "60 passed; 0 failed" in out, out.strip()

def demo(wt, feats, release=False, nodef=False):
    cmd = "cargo test --offline -j 8 %s %s --test seed_demo %s -- --test-threads 4 2>&1 | tail -30" % ("--release" if release else "", "--no-default-features" if nodef else "", ("--features " + feats) if feats else "")
    rc, out = sh(cmd, cwd=wt)
    ok = ("test result: ok" in out) and ("FAILED" not in out) and ("error" not in out.split("test result")[0][-2000:] or True)
    return ok and "test result: ok" in out, out

def verify(wt, prop):
    sd = os.path.join(wt, "SEED")
    kept = []
    for x in sorted(os.listdir(sd)):
        d = os.path.join(sd, x)
        patch = os.path.join(d, "patch.diff")
        if not os.path.isfile(patch):
            continue
        meta = {}
        try:
            meta = json.load(open(os.path.join(d, "meta.json")))
        except Exception as e:
            print(x, "meta.json unreadable", e)
        feats = (meta.get("features") or "").strip()
        release = "--release" in (meta.get("demo_cmd") or "")
        nodef = "--no-default-features" in (meta.get("demo_cmd") or "")
        sh("git checkout -- . && rm -f tests/seed_demo.rs", cwd=wt)
        os.makedirs(os.path.join(wt, "tests"), exist_ok=True)
        shutil.copy(os.path.join(d, "demo.rs"), os.path.join(wt, "tests/seed_demo.rs"))
        clean_ok, out0 = demo(wt, feats, release, nodef)
        rc, out = sh(["git", "apply", patch], cwd=wt)
        if rc != 0:
            print(prop, x, "patch does not apply:", out)
            continue
        # the patch must not touch tests / Cargo.toml / verif hooks
        rc, names = sh("git diff --name-only", cwd=wt)
        bad_files = [n for n in names.split() if not n.startswith("src/")]
        mut_fail, out1 = demo(wt, feats, release, nodef)
        os.remove(os.path.join(wt, "tests/seed_demo.rs"))
        s_ok, s_out = suite_ok(wt)
        sh("git checkout -- .", cwd=wt)
        res = {"demo_passes_without_change": clean_ok, "demo_fails_with_change": not mut_fail, "suite_passes_with_change": s_ok, "suite_line": s_out, "files": names.split()}
        print(prop, x, res)
        if clean_ok and (not mut_fail) and s_ok and not bad_files:
            dest = os.path.join(SEEDED, "%s-%s" % (prop, x))
            os.makedirs(dest, exist_ok=True)
            shutil.copy(patch, os.path.join(dest, "patch.diff"))
            shutil.copy(os.path.join(d, "demo.rs"), os.path.join(dest, "demo.rs"))
            meta_out = {
                "property": prop,
                "summary": meta.get("summary", ""),
                "needs_to_manifest": meta.get("needs_to_manifest", ""),
                "demo_cmd": "cp demo.rs <worktree>/tests/seed_demo.rs && cargo test --offline " + ("--release " if release else "") + ("--no-default-features " if nodef else "") + "--test seed_demo" + ((" --features " + feats) if feats else ""),
                "source": "independent sub-agent given only the property text and a scratch worktree",
                "confirmed_by_me": res,
                "what_i_ran": "in a scratch worktree of /repo HEAD: demo on clean tree (passes), git apply patch.diff, demo (fails), cargo test --offline (60 passed; 0 failed), git checkout -- .",
                "base_commit": sh("git rev-parse HEAD", cwd=wt)[1].strip(),
            }
            json.dump(meta_out, open(os.path.join(dest, "meta.json"), "w"), indent=1)
            kept.append(dest)
    print("kept:", kept)

def load_results():
    p = os.path.join(SEEDED, "RESULTS.json")
    return json.load(open(p)) if os.path.exists(p) else {}

def run(seed, checks, tier="quick"):
    d = os.path.join(SEEDED, seed)
    meta = json.load(open(os.path.join(d, "meta.json")))
    checks = checks or [meta["property"]]
    rc, out = sh("git -C /repo status --porcelain --untracked-files=no")
    if out.strip():
        print("refusing: /repo has uncommitted changes:\n" + out)
        return
    rc, out = sh(["git", "-C", "/repo", "apply", os.path.join(d, "patch.diff")])
    if rc != 0:
        print(seed, "patch does not apply to /repo:", out)
        return
    results = load_results()
    try:
        for c in checks:
            t0 = time.time()
            os.makedirs(SEED_EVID, exist_ok=True)
            ENV["RQV_EVID"] = SEED_EVID
            rc, out = sh([os.path.join(ROOT, "check"), c, tier], cwd=ROOT, timeout=7200)
            viol = [l for l in out.splitlines() if l.startswith("VIOLATION ")]
            verdict = {0: "MISSED (held)", 1: "CAUGHT", 2: "inconclusive"}.get(rc, "rc=%d" % rc)
            what = [l.strip() for l in out.splitlines() if l.strip().startswith("what:")][:2]
            print("%s vs %s %s: %s (%d VIOLATION lines, %.0fs) %s" % (seed, c, tier, verdict, len(viol), time.time() - t0, what[:1]))
            results.setdefault(seed, {})["%s/%s" % (c, tier)] = {"verdict": verdict, "violation_lines": len(viol), "first": what[:1], "wall_s": round(time.time() - t0, 1)}
    finally:
        sh("git -C /repo checkout -- .")
    json.dump(results, open(os.path.join(SEEDED, "RESULTS.json"), "w"), indent=1, sort_keys=True)

def runlab(lab, seeds, tier="quick"):
    """like run, but in a scratch lab (labtool.py) so that /repo and /verif stay untouched; results are
    recorded under '<check>/<tier>@lab' and are re-confirmed on /repo by `run` before they are reported"""
    import labtool
    if not os.path.exists(labtool.lab(lab)):
        labtool.create(lab)
    else:
        labtool.sync(lab)
    for seed in seeds:
        d = os.path.join(SEEDED, seed)
        meta = json.load(open(os.path.join(d, "meta.json")))
        for r in labtool.run_checks(lab, os.path.join(d, "patch.diff"), tier, [meta["property"]]):
            verdict = {"held": "MISSED (held)"}.get(r["verdict"], r["verdict"])
            print("%s vs %s %s @lab %s: %s (%s VIOLATION lines, %.0fs) %s" % (seed, r["id"], tier, lab, verdict, r.get("violations"), r["wall"], r["first"][:200]), flush=True)
            results = load_results()
            results.setdefault(seed, {})["%s/%s@lab" % (r["id"], tier)] = {"verdict": verdict, "violation_lines": r.get("violations"), "first": [r["first"]], "wall_s": r["wall"]}
            json.dump(results, open(os.path.join(SEEDED, "RESULTS.json"), "w"), indent=1, sort_keys=True)

if __name__ == "__main__":
    if len(sys.argv) < 2:
        print(__doc__)
    elif sys.argv[1] == "verify":
        verify(sys.argv[2], sys.argv[3])
    elif sys.argv[1] == "run":
        run(sys.argv[2], sys.argv[3:])
    elif sys.argv[1] == "runlab":
        runlab(sys.argv[2], sys.argv[3:])
    elif sys.argv[1] == "runall":
        tier = sys.argv[2] if len(sys.argv) > 2 else "quick"
        for s in sorted(os.listdir(SEEDED)):
            if os.path.isdir(os.path.join(SEEDED, s)):
                run(s, [], tier)
