#!/usr/bin/env python3
"""Silence runs: every check's quick (or thorough) command on the UNCHANGED tree at several VERIF_SEED values,
in parallel labs (identical copies of /repo + /verif). Any verdict other than 'held' is printed loudly.
  silence.py <tier> <seed> [<seed> ...] [--only C01,C02] [--labbase N]"""
import json, sys, threading, os
sys.path.insert(0, os.path.dirname(os.path.abspath(__file__)))
import labtool

def main():
    tier = sys.argv[1]
    args = sys.argv[2:]
    only = None
    if "--only" in args:
        i = args.index("--only")
        only = args[i + 1].split(",")
        args = args[:i] + args[i + 2:]
    labbase = 0
    if "--labbase" in args:
        i = args.index("--labbase")
        labbase = int(args[i + 1])
        args = args[:i] + args[i + 2:]
    seeds = [int(x) for x in args]
    ids = only or ["C%02d" % i for i in range(1, 20)]
    lock = threading.Lock()

    def work(k, seed):
        n = "q%d" % (k + labbase)
        if not os.path.exists(labtool.lab(n)):
            labtool.create(n)
        else:
            labtool.sync(n)
        for cid in ids:
            r = labtool.run_checks(n, "-", tier, [cid], seed=seed, timeout=6 * 3600)[0]
            with lock:
                flag = "" if r["verdict"] == "held" else "   <<<<<<<<<<<<<<<< NOT SILENT"
                print("seed=%d %s %s %s %.0fs %s%s" % (seed, cid, tier, r["verdict"], r["wall"], r["first"][:200], flag), flush=True)

    ts = [threading.Thread(target=work, args=(k, s)) for k, s in enumerate(seeds)]
    for t in ts:
        t.start()
    for t in ts:
        t.join()
    print("silence run done")

main()
