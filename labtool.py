#!/usr/bin/env python3
"""Scratch 'labs': self-contained copies of (/repo worktree + /verif machinery) under /var/tmp, so that
several changed trees can be run through the checks in parallel without touching /repo or /verif.

  labtool.py create <n>                       /var/tmp/rqv-lab-<n>/{repo,verif}; repo = detached git worktree of
                                              /repo HEAD, verif = copy of /verif (no build output, no evidence)
                                              whose harness path-depends on the lab's repo
  labtool.py sync <n>                         re-copy /verif's sources into the lab (keeps build output)
  labtool.py run <n> <patch|-> <tier> <ID>... apply the patch to the lab repo ('-' = no patch), run the lab's
                                              ./check <ID> <tier> for each ID, print one line per check, undo
  labtool.py destroy <n>                      remove the lab and its git worktree registration

Labs are never used for the registered checks or for committed evidence (those always run in /verif
against /repo itself); they exist for the mutation campaign and for confirming seeded changes.
"""
import json, os, shutil, subprocess, sys, time

VERIF = os.path.dirname(os.path.abspath(__file__))
BASE = "/var/tmp"

def lab(n):
    return os.path.join(BASE, "rqv-lab-%s" % n)

def sh(cmd, cwd=None, env=None, timeout=None):
    # own process group, so that a timeout also ends the grandchildren (a mutant that hangs the library
    # would otherwise leave its monitor process spinning)
    import signal
    p = subprocess.Popen(cmd, cwd=cwd, env=env, shell=isinstance(cmd, str), stdout=subprocess.PIPE, stderr=subprocess.STDOUT, text=True, errors="replace", start_new_session=True)
    try:
        out, _ = p.communicate(timeout=timeout)
    except subprocess.TimeoutExpired:
        try:
            os.killpg(p.pid, signal.SIGKILL)
        except ProcessLookupError:
            pass
        p.communicate()
        raise
    return p.returncode, out

def sync(n):
    d = lab(n)
    v = os.path.join(d, "verif")
    os.makedirs(v, exist_ok=True)
    rc, out = sh(["rsync", "-a", "--delete", "--exclude", ".git", "--exclude", "target*", "--exclude", "evidence", "--exclude", "seeded", "--exclude", "mutants", VERIF + "/", v + "/"])
    if rc != 0:
        raise SystemExit(out)
    ct = os.path.join(v, "harness", "Cargo.toml")
    s = open(ct).read().replace('path = "/repo"', 'path = "%s"' % os.path.join(d, "repo"))
    open(ct, "w").write(s)
    os.makedirs(os.path.join(v, "evidence"), exist_ok=True)

def create(n):
    d = lab(n)
    if os.path.exists(d):
        raise SystemExit("lab exists: " + d)
    os.makedirs(d)
    rc, out = sh(["git", "-C", "/repo", "worktree", "add", "--detach", os.path.join(d, "repo"), "HEAD"])
    if rc != 0:
        raise SystemExit(out)
    sync(n)
    print(d)

def destroy(n):
    d = lab(n)
    sh(["git", "-C", "/repo", "worktree", "remove", "--force", os.path.join(d, "repo")])
    shutil.rmtree(d, ignore_errors=True)
    sh(["git", "-C", "/repo", "worktree", "prune"])

def run_checks(n, patch, tier, ids, seed=None, timeout=3600):
    """returns list of dicts (id, verdict, rc, wall, first)"""
    d = lab(n)
    repo = os.path.join(d, "repo")
    v = os.path.join(d, "verif")
    res = []
    sh("git checkout -- .", cwd=repo)
    if patch and patch != "-":
        rc, out = sh(["git", "apply", os.path.abspath(patch)], cwd=repo)
        if rc != 0:
            return [dict(id=i, verdict="patch does not apply", rc=-1, wall=0, first=out.strip()[:200]) for i in ids]
    env = dict(os.environ, CARGO_NET_OFFLINE="true")
    env.pop("RQV_EVID", None)
    if seed is not None:
        env["VERIF_SEED"] = str(seed)
    try:
        for i in ids:
            t0 = time.time()
            try:
                rc, out = sh([os.path.join(v, "check"), i, tier], cwd=v, env=env, timeout=timeout)
            except subprocess.TimeoutExpired:
                rc, out = -999, ""
            what = [l.strip() for l in out.splitlines() if l.strip().startswith(("what:", "INCONCLUSIVE"))][:1]
            nv = sum(1 for l in out.splitlines() if l.startswith("VIOLATION "))
            verdict = {0: "held", 1: "CAUGHT", 2: "inconclusive", -999: "timeout"}.get(rc, "rc=%d" % rc)
            res.append(dict(id=i, verdict=verdict, rc=rc, wall=round(time.time() - t0, 1), violations=nv, first=(what[0][:300] if what else "")))
    finally:
        sh("git checkout -- .", cwd=repo)
    return res

if __name__ == "__main__":
    a = sys.argv[1:]
    if not a:
        print(__doc__)
    elif a[0] == "create":
        create(a[1])
    elif a[0] == "sync":
        sync(a[1])
    elif a[0] == "destroy":
        destroy(a[1])
    elif a[0] == "run":
        for r in run_checks(a[1], a[2], a[3], a[4:]):
            print(json.dumps(r))
