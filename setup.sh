#!/bin/sh
# Builds every harness configuration once, offline, from files on disk only (the checks rebuild
# incrementally from /repo's working tree on every run; this only warms the caches).
set -e
cd "$(dirname "$0")/harness"
export CARGO_NET_OFFLINE=true
cargo build --release --offline
cargo build --profile checked --offline
cargo build --release --offline --no-default-features --target-dir target-nostd
RUSTFLAGS="-Zsanitizer=address -Cforce-frame-pointers=yes" cargo +nightly build --release --offline --target x86_64-unknown-linux-gnu --target-dir target-asan
# Miri: the first `miri run` builds the interpreter's view of the crate; `nop` exits immediately
MIRIFLAGS="-Zmiri-disable-isolation -Zmiri-tree-borrows" RUSTFLAGS="-Ctarget-feature=+avx512f,+avx512bw,+avx2,+bmi1,+ssse3" cargo +nightly miri run --offline --target-dir target-miri-all -- nop >/dev/null 2>&1 || true
echo "setup done"
