#!/bin/sh
# Builds every harness configuration once, offline, from files on disk only.
set -e
cd "$(dirname "$0")/harness"
export CARGO_NET_OFFLINE=true
cp /repo/Cargo.lock Cargo.lock 2>/dev/null || true
cargo build --release --offline
