#!/usr/bin/env python3
"""Mechanical mutation generator for the crate under test (complements the sub-agents' hand-written
seeded changes): applies small, syntactically safe operators to single lines of /repo/src/*.rs and
writes one unified diff per mutant.

  mutgen.py <outdir> [--seed N] [--per-file-cap M] [--files a.rs,b.rs]

Skipped: test modules, comments, attribute lines, lines added by the verif hook commit, the python
bindings, and pure-debug lines (debug_assert!, *_verify helpers under cfg(debug_assertions)).
Output: <outdir>/<id>.diff and <outdir>/index.json (id, file, line, operator, before, after).
"""
import hashlib, json, os, random, re, subprocess, sys

REPO = "/repo"
HOOK_COMMIT = "7fb8e72"
SKIP_FILES = {"python.rs", "lib.rs"}

def sh(cmd, cwd=None):
    return subprocess.run(cmd, cwd=cwd, shell=isinstance(cmd, str), stdout=subprocess.PIPE, stderr=subprocess.STDOUT, text=True).stdout

def hook_lines(path):
    out = sh(["git", "-C", REPO, "blame", "-s", "-l", "HEAD", "--", path])
    full = sh(["git", "-C", REPO, "rev-parse", HOOK_COMMIT]).strip()
    s = set()
    for i, l in enumerate(out.splitlines(), 1):
        if l.startswith(full[:len(l.split()[0])]) or l.split()[0].lstrip("^") == full:
            s.add(i)
    return s

REL = [(" < ", " <= "), (" <= ", " < "), (" > ", " >= "), (" >= ", " > "), (" == ", " != "), (" != ", " == ")]
ARI = [(" + 1", ""), (" - 1", ""), (" + 1", " - 1"), (" - 1", " + 1"), (" + ", " - "), (" - ", " + "), (" / ", " % "), (" % ", " / "),
       (" << ", " >> "), (" >> ", " << "), (" & ", " | "), (" | ", " & "), (" ^ ", " | "), (" ^= ", " |= "), (" += ", " -= "), (" -= ", " += "), (" += 1", " += 2")]
LOG = [(" && ", " || "), (" || ", " && ")]
RNG = [("..=", ".."), ]
CAST = [(" as u32", " as u16"), (" as u64", " as u32"), (" as usize", " as u16 as usize"), (" as u16", " as u8 as u16"), ("u64::from(", "u64::from(1 + "), ]
FN = [(".div_ceil(", ".div_euclid("), ("wrapping_add", "saturating_add"), ("wrapping_mul", "saturating_mul"), (".min(", ".max("), (".max(", ".min("),
      ("int_div_ceil(", "(|a: u64, b: u64| (a / b) as u32)("), (".is_none()", ".is_some()"), (".is_some()", ".is_none()"), (".is_empty()", ".len() == 1"),
      ("swap(", "swap_noop("), (".rev()", ""), (".skip(1)", ""), (".saturating_sub(", ".wrapping_sub(")]

def candidates(line):
    """yields (operator, new line)"""
    code = line.split("//")[0]
    for grp, name in ((REL, "rel"), (ARI, "ari"), (LOG, "log"), (RNG, "range"), (CAST, "cast"), (FN, "fn")):
        for a, b in grp:
            start = 0
            n = 0
            while True:
                k = code.find(a, start)
                if k < 0:
                    break
                n += 1
                if name == "range" and code[k:k + 3] != "..=":
                    start = k + 1
                    continue
                if b == "swap_noop(":
                    break
                yield ("%s:%s->%s#%d" % (name, a.strip(), b.strip() or "(drop)", n), line[:k] + b + line[k + len(a):])
                start = k + len(a)
    # `..` -> `..=` only in `for ... in a..b` headers
    m = re.search(r"\bin\s+[^{]*?[^.=](\.\.)[^.=]", code)
    if m:
        k = m.start(1)
        yield ("range:..->..=", line[:k] + "..=" + line[k + 2:])
    # small integer literals +-1 (not in array initialisers / tables)
    for m in re.finditer(r"(?<![\w.#\[])(\d{1,3})(?![\w.\]])", code):
        v = int(m.group(1))
        if "[" in code and "]" in code and code.count(",") > 3:
            break
        for nv in (v + 1, v - 1):
            if nv >= 0:
                yield ("lit:%d->%d" % (v, nv), line[:m.start(1)] + str(nv) + line[m.end(1):])
    # negate an if condition
    m = re.match(r"^(\s*)(\}\s*else\s+)?if (?!let )(.+) \{\s*$", code.rstrip("\n"))
    if m:
        yield ("negate-if", "%s%sif !(%s) {\n" % (m.group(1), m.group(2) or "", m.group(3)))
    # delete a simple statement (method call or assignment-op statement on one line)
    s = code.strip()
    if s.endswith(";") and not s.startswith(("let ", "return", "use ", "pub ", "const ", "static ", "type ", "break", "continue", "}")) and "(" in s and s.count("(") == s.count(")") and "=" not in s.replace("==", "").replace("!=", "").replace("<=", "").replace(">=", ""):
        yield ("delete-stmt", re.match(r"^\s*", line).group(0) + "();\n")
    if re.match(r"^\s*[\w.\[\]\*]+ (\+|-|\^|\|)= .+;\s*$", code):
        yield ("delete-stmt", re.match(r"^\s*", line).group(0) + "();\n")
    if s in ("continue;", "break;"):
        yield ("swap-break-continue", line.replace("continue;", "break;") if "continue;" in line else line.replace("break;", "continue;"))

def eligible_lines(path, text):
    hooks = hook_lines(os.path.relpath(path, REPO))
    lines = text.splitlines(keepends=True)
    ok = []
    in_tests = False
    in_block_comment = False
    skip_next_item_depth = None
    depth = 0
    debug_region = 0
    for i, l in enumerate(lines, 1):
        s = l.strip()
        if re.match(r"#\[cfg\(test\)\]", s):
            in_tests = True   # test modules are the last item of every file in this crate
        if in_tests:
            continue
        if i in hooks:
            continue
        if s.startswith(("//", "#[", "#!", "use ", "pub use ", "mod ", "pub mod ", "extern ")) or not s:
            continue
        if "debug_assert" in s or "unimplemented!" in s or "unreachable!" in s or "panic!(" in s:
            continue
        ok.append(i)
    return lines, ok

def debug_only_fn_ranges(lines):
    """line ranges of items following #[cfg(debug_assertions)] (the solver's self-verification helpers)"""
    rng = []
    i = 0
    while i < len(lines):
        if lines[i].strip().startswith("#[cfg(debug_assertions)]"):
            j = i + 1
            depth = 0
            opened = False
            while j < len(lines):
                depth += lines[j].count("{") - lines[j].count("}")
                if "{" in lines[j]:
                    opened = True
                if (opened and depth <= 0) or (not opened and lines[j].rstrip().endswith(";")):
                    break
                j += 1
            rng.append((i + 1, j + 1))
            i = j
        i += 1
    return rng

def main():
    out = sys.argv[1]
    seed = 1
    cap = 40
    files = None
    a = sys.argv[2:]
    while a:
        if a[0] == "--seed":
            seed = int(a[1]); a = a[2:]
        elif a[0] == "--per-file-cap":
            cap = int(a[1]); a = a[2:]
        elif a[0] == "--files":
            files = a[1].split(","); a = a[2:]
        else:
            raise SystemExit(__doc__)
    os.makedirs(out, exist_ok=True)
    rnd = random.Random(seed)
    index = []
    src = os.path.join(REPO, "src")
    for fn in sorted(os.listdir(src)):
        if not fn.endswith(".rs") or fn in SKIP_FILES or (files and fn not in files):
            continue
        path = os.path.join(src, fn)
        text = open(path).read()
        lines, ok = eligible_lines(path, text)
        dbg = debug_only_fn_ranges(lines)
        table_file = fn in ("systematic_constants.rs", "rng.rs", "octet.rs")
        muts = []
        for i in ok:
            if any(a <= i <= b for a, b in dbg):
                continue
            l = lines[i - 1]
            # data tables: one mutant per ~sampled row, handled below
            if table_file and re.match(r"^\s*[\(\[]?\s*\d", l):
                if rnd.random() < (0.02 if fn != "octet.rs" else 0.3):
                    nums = list(re.finditer(r"\d+", l.split("//")[0]))
                    if nums:
                        m = rnd.choice(nums)
                        v = int(m.group(0))
                        muts.append((i, "table:%d->%d" % (v, v + 1), l[:m.start()] + str(v + 1) + l[m.end():]))
                continue
            seen = set()
            for op, nl in candidates(l):
                if nl != l and nl not in seen:
                    seen.add(nl)
                    muts.append((i, op, nl))
        rnd.shuffle(muts)
        # spread over lines: at most 2 mutants per line
        per_line = {}
        chosen = []
        for (i, op, nl) in muts:
            if per_line.get(i, 0) >= 2:
                continue
            per_line[i] = per_line.get(i, 0) + 1
            chosen.append((i, op, nl))
            if len(chosen) >= cap:
                break
        for (i, op, nl) in chosen:
            new = list(lines)
            new[i - 1] = nl
            mid = "%s-%d-%s" % (fn[:-3], i, hashlib.sha1((op + nl).encode()).hexdigest()[:6])
            tmp = os.path.join(out, "tmp.rs")
            open(tmp, "w").write("".join(new))
            d = subprocess.run(["diff", "-u", "--label", "a/src/" + fn, "--label", "b/src/" + fn, path, tmp], stdout=subprocess.PIPE, text=True).stdout
            os.remove(tmp)
            open(os.path.join(out, mid + ".diff"), "w").write(d)
            index.append(dict(id=mid, file=fn, line=i, op=op, before=lines[i - 1].strip(), after=nl.strip()))
    json.dump(index, open(os.path.join(out, "index.json"), "w"), indent=1)
    print(len(index), "mutants")
    from collections import Counter
    print(Counter(m["file"] for m in index))

if __name__ == "__main__":
    main()
