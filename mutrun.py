#!/usr/bin/env python3
"""Mutation campaign runner: feeds mechanical mutants (mutgen.py) through the quick checks in parallel labs.

  mutrun.py <mutdir> <results.jsonl> [--labs 4] [--limit N] [--only file.rs,...]

Per mutant: apply to a lab's repo copy, run the quick checks most relevant to the mutated file first
and stop at the first one that reports a violation ("caught"). A mutant no check catches is then run
through the crate's own test suite (killed there = not a realistic change for this task; survives =
candidate miss that needs triage: equivalent mutant or a gap in the monitors).
"""
import json, os, queue, subprocess, sys, threading, time
sys.path.insert(0, os.path.dirname(os.path.abspath(__file__)))
import labtool

ORDER = {
    "octet.rs": ["C10", "C11", "C04"],
    "octets.rs": ["C11", "C07", "C09", "C12"],
    "base.rs": ["C13", "C19", "C14", "C15", "C05", "C04"],
    "rng.rs": ["C15", "C04"],
    "systematic_constants.rs": ["C15", "C04", "C06"],
    "encoder.rs": ["C18", "C05", "C04", "C06", "C17", "C09", "C01", "C14"],
    "decoder.rs": ["C01", "C08", "C02", "C05", "C03"],
    "pi_solver.rs": ["C06", "C02", "C01", "C07", "C04"],
    "constraint_matrix.rs": ["C04", "C06", "C02"],
    "matrix.rs": ["C16", "C06", "C07", "C02", "C11"],
    "sparse_matrix.rs": ["C16", "C06", "C07", "C02", "C11"],
    "sparse_vec.rs": ["C16", "C06", "C02"],
    "arraymap.rs": ["C16", "C06", "C02"],
    "iterators.rs": ["C16", "C06", "C02"],
    "gf2.rs": ["C16", "C06"],
    "symbol_slab.rs": ["C06", "C09", "C12", "C04", "C01"],
    "symbol.rs": ["C06", "C09", "C04", "C01"],
    "operation_vector.rs": ["C06", "C09", "C04", "C01"],
    "util.rs": ["C14", "C19", "C05"],
    "graph.rs": ["C02", "C06", "C01"],
    "octet_matrix.rs": ["C02", "C06", "C04", "C01"],
}
ALL = ["C%02d" % i for i in range(1, 20)]
LATE = ["C03", "C12"]

def run_suite(n, patch):
    repo = os.path.join(labtool.lab(n), "repo")
    labtool.sh("git checkout -- .", cwd=repo)
    labtool.sh(["git", "apply", patch], cwd=repo)
    try:
        rc, out = labtool.sh("cargo test --offline -j 4 -- --test-threads 4 2>&1 | grep -E 'test result|panicked|FAILED' | head -5", cwd=repo, env=dict(os.environ, CARGO_NET_OFFLINE="true"), timeout=1800)
    except subprocess.TimeoutExpired:
        out = "suite timeout"
    labtool.sh("git checkout -- .", cwd=repo)
    return out.strip()[:300]

def worker(n, q, outp, lock, mutdir):
    while True:
        try:
            m = q.get_nowait()
        except queue.Empty:
            return
        t0 = time.time()
        patch = os.path.join(mutdir, m["id"] + ".diff")
        order = ORDER.get(m["file"], [])
        rest = [c for c in ALL if c not in order and c not in LATE] + [c for c in LATE if c not in order]
        rec = dict(m, checks=[], caught_by=None)
        status = None
        suite_line = None
        for phase, ids in (("primary", order), ("rest", rest)):
            if phase == "rest" and not status:
                # before spending ~20 minutes on the remaining checks: a mutant the crate's own suite kills
                # is not a change this task is about
                suite_line = run_suite(n, patch)
                if "60 passed; 0 failed" not in suite_line:
                    rec["suite"] = suite_line
                    status = "missed-by-primary-but-suite-kills"
                    break
            for cid in ids:
                r = labtool.run_checks(n, patch, "quick", [cid], timeout=1200)[0]
                rec["checks"].append(dict(id=cid, verdict=r["verdict"], wall=r["wall"], first=r["first"][:200]))
                if r["verdict"] == "patch does not apply":
                    status = "patch-does-not-apply"
                    break
                if r["verdict"] == "inconclusive" and "build of configuration" in r["first"]:
                    status = "does-not-compile"
                    break
                if r["verdict"] == "CAUGHT":
                    rec["caught_by"] = cid
                    rec["caught_phase"] = phase
                    status = "caught"
                    break
            if status:
                break
        if not status:
            out = suite_line or run_suite(n, patch)
            rec["suite"] = out
            inconc = [c["id"] for c in rec["checks"] if c["verdict"] not in ("held",)]
            if "60 passed; 0 failed" in out:
                status = "SURVIVED-ALL (suite passes)" + (" inconclusive:" + ",".join(inconc) if inconc else "")
            else:
                status = "missed-but-suite-kills" + (" inconclusive:" + ",".join(inconc) if inconc else "")
        rec["status"] = status
        rec["wall"] = round(time.time() - t0, 1)
        with lock:
            with open(outp, "a") as f:
                f.write(json.dumps(rec) + "\n")
            print("[lab %s] %-34s %-10s %-28s by=%s (%.0fs) %s" % (n, m["id"], m["op"][:10], status[:28], rec["caught_by"], rec["wall"], m["after"][:60]), flush=True)

def main():
    mutdir, outp = sys.argv[1], sys.argv[2]
    labs, limit, only = 4, None, None
    a = sys.argv[3:]
    while a:
        if a[0] == "--labs":
            labs = int(a[1])
        elif a[0] == "--limit":
            limit = int(a[1])
        elif a[0] == "--only":
            only = a[1].split(",")
        a = a[2:]
    idx = json.load(open(os.path.join(mutdir, "index.json")))
    done = set()
    if os.path.exists(outp):
        done = {json.loads(l)["id"] for l in open(outp)}
    idx = [m for m in idx if m["id"] not in done and (not only or m["file"] in only)]
    import random
    random.Random(7).shuffle(idx)
    if limit:
        idx = idx[:limit]
    q = queue.Queue()
    for m in idx:
        q.put(m)
    lock = threading.Lock()
    names = ["m%d" % i for i in range(labs)]
    for n in names:
        if not os.path.exists(labtool.lab(n)):
            labtool.create(n)
        else:
            labtool.sync(n)
    ts = [threading.Thread(target=worker, args=(n, q, outp, lock, mutdir)) for n in names]
    for t in ts:
        t.start()
    for t in ts:
        t.join()
    print("done")

if __name__ == "__main__":
    main()
