#!/usr/bin/env python3
"""Regenerates the seeded-change table in DESIGN.md (between the SEED-TABLE markers) from
seeded/*/meta.json and seeded/RESULTS.json."""
import json, os
ROOT = os.path.dirname(os.path.abspath(__file__))
r = json.load(open(os.path.join(ROOT, "seeded/RESULTS.json")))
rows = []
for sd in sorted(os.listdir(os.path.join(ROOT, "seeded"))):
    d = os.path.join(ROOT, "seeded", sd)
    if not os.path.isdir(d):
        continue
    m = json.load(open(os.path.join(d, "meta.json")))
    res = r.get(sd, {})
    v = "; ".join("%s %s" % (k.replace("/", " "), x["verdict"].split(" ")[0].lower()) for k, x in sorted(res.items())) or "not run yet"
    summ = m["summary"].replace("|", "/").replace("\n", " ")
    if len(summ) > 170:
        summ = summ[:167] + "…"
    rows.append("| `%s` | %s | %s | %s |" % (sd, m["property"], summ, v))
table = "| seeded change | breaks | what was changed | result |\n|---|---|---|---|\n" + "\n".join(rows) + "\n"
p = os.path.join(ROOT, "DESIGN.md")
s = open(p).read()
b, e = "<!-- SEED-TABLE-BEGIN -->\n", "<!-- SEED-TABLE-END -->\n"
if b in s:
    s = s[: s.index(b) + len(b)] + table + s[s.index(e):]
else:
    # first use: replace the hand-made table
    i = s.index("| seeded change | breaks | what was changed | result |")
    j = s.index("\nMisses and what was strengthened")
    s = s[:i] + b + table + e + s[j:]
open(p, "w").write(s)
print("table rows:", len(rows))
